package common

import (
	"fmt"

	"github.com/spikeekips/mitum/base"
	"github.com/spikeekips/mitum/isaac"
	"github.com/spikeekips/mitum/util"
	"github.com/spikeekips/mitum/util/valuehash"
)

// Cluster is a suffrage with the private keys of its members: the harness
// signs ballots on behalf of the remote nodes (never on behalf of the local
// node of a component under test).
type Cluster struct {
	Nodes     []base.LocalNode
	Suf       base.Suffrage
	Threshold base.Threshold
}

func NewCluster(from, n int, th base.Threshold) *Cluster {
	ls := Locals(from, n)

	suf, err := isaac.NewSuffrage(Nodes(ls))
	if err != nil {
		panic(err)
	}

	return &Cluster{Nodes: ls, Suf: suf, Threshold: th}
}

// Required is the number of votes the protocol requires in this cluster (trusts base.Threshold.Threshold).
func (c *Cluster) Required() int { return int(c.Threshold.Threshold(uint(len(c.Nodes)))) }

func (c *Cluster) SignINIT(node base.LocalNode, fact base.INITBallotFact) isaac.INITBallotSignFact {
	sf := isaac.NewINITBallotSignFact(fact)
	if err := sf.NodeSign(node.Privatekey(), NetworkID, node.Address()); err != nil {
		panic(err)
	}

	return sf
}

func (c *Cluster) SignACCEPT(node base.LocalNode, fact base.ACCEPTBallotFact) isaac.ACCEPTBallotSignFact {
	sf := isaac.NewACCEPTBallotSignFact(fact)
	if err := sf.NodeSign(node.Privatekey(), NetworkID, node.Address()); err != nil {
		panic(err)
	}

	return sf
}

// INITVoteproof builds an INIT voteproof from sign facts; majority may be nil (draw).
func (c *Cluster) INITVoteproof(point base.Point, sfs []base.BallotSignFact, majority base.BallotFact) isaac.INITVoteproof {
	vp := isaac.NewINITVoteproof(point)
	vp.SetSignFacts(sfs).SetMajority(majority).SetThreshold(c.Threshold)
	vp.Finish()

	return vp
}

func (c *Cluster) ACCEPTVoteproof(point base.Point, sfs []base.BallotSignFact, majority base.BallotFact) isaac.ACCEPTVoteproof {
	vp := isaac.NewACCEPTVoteproof(point)
	vp.SetSignFacts(sfs).SetMajority(majority).SetThreshold(c.Threshold)
	vp.Finish()

	return vp
}

// MajorityACCEPT is an ACCEPT voteproof in which every node voted for (proposal, newblock).
func (c *Cluster) MajorityACCEPT(point base.Point, proposal, newblock util.Hash) isaac.ACCEPTVoteproof {
	fact := isaac.NewACCEPTBallotFact(point, proposal, newblock, nil)
	sfs := make([]base.BallotSignFact, len(c.Nodes))

	for i, n := range c.Nodes {
		sfs[i] = c.SignACCEPT(n, fact)
	}

	return c.ACCEPTVoteproof(point, sfs, fact)
}

// MajorityINIT is an INIT voteproof in which every node voted for fact.
func (c *Cluster) MajorityINIT(point base.Point, fact base.INITBallotFact) isaac.INITVoteproof {
	sfs := make([]base.BallotSignFact, len(c.Nodes))
	for i, n := range c.Nodes {
		sfs[i] = c.SignINIT(n, fact)
	}

	return c.INITVoteproof(point, sfs, fact)
}

// DrawINIT is an INIT voteproof in which every node voted for its own fact (needs >= 2 nodes to be a draw).
func (c *Cluster) DrawINIT(point base.Point, prev util.Hash) isaac.INITVoteproof {
	sfs := make([]base.BallotSignFact, len(c.Nodes))
	for i, n := range c.Nodes {
		sfs[i] = c.SignINIT(n, isaac.NewINITBallotFact(point, prev, valuehash.RandomSHA256(), nil))
	}

	return c.INITVoteproof(point, sfs, nil)
}

// DrawACCEPT likewise for the ACCEPT stage.
func (c *Cluster) DrawACCEPT(point base.Point, proposal util.Hash) isaac.ACCEPTVoteproof {
	sfs := make([]base.BallotSignFact, len(c.Nodes))
	for i, n := range c.Nodes {
		sfs[i] = c.SignACCEPT(n, isaac.NewACCEPTBallotFact(point, proposal, valuehash.RandomSHA256(), nil))
	}

	return c.ACCEPTVoteproof(point, sfs, nil)
}

// Expel builds an expel operation against target, signed by signers.
func (c *Cluster) Expel(target base.Address, start, end base.Height, signers []base.LocalNode) isaac.SuffrageExpelOperation {
	fact := isaac.NewSuffrageExpelFact(target, start, end, fmt.Sprintf("verif expel of %s", target))
	op := isaac.NewSuffrageExpelOperation(fact)

	for _, s := range signers {
		if err := op.NodeSign(s.Privatekey(), NetworkID, s.Address()); err != nil {
			panic(err)
		}
	}

	return op
}

func ExpelFactHashes(expels []base.SuffrageExpelOperation) []util.Hash {
	hs := make([]util.Hash, len(expels))
	for i := range expels {
		hs[i] = expels[i].ExpelFact().Hash()
	}

	return hs
}

func INITBallot(vp base.Voteproof, sf isaac.INITBallotSignFact, expels []base.SuffrageExpelOperation) isaac.INITBallot {
	return isaac.NewINITBallot(vp, sf, expels)
}

func ACCEPTBallot(ivp base.INITVoteproof, sf isaac.ACCEPTBallotSignFact, expels []base.SuffrageExpelOperation) isaac.ACCEPTBallot {
	return isaac.NewACCEPTBallot(ivp, sf, expels)
}
