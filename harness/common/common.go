// Package common holds generators shared by the harness groups: encoders with
// every hinter registered, deterministic keys and nodes, signed ballots,
// proposals, operations and block maps.
package common

import (
	"fmt"
	"sync"

	"github.com/spikeekips/mitum/base"
	"github.com/spikeekips/mitum/isaac"
	isaacdatabase "github.com/spikeekips/mitum/isaac/database"
	"github.com/spikeekips/mitum/launch"
	"github.com/spikeekips/mitum/util/encoder"
	jsonenc "github.com/spikeekips/mitum/util/encoder/json"
)

var NetworkID = base.NetworkID([]byte("verif-network"))

var (
	encsOnce sync.Once
	encs     *encoder.Encoders
	enc      encoder.Encoder
)

// Encs returns process-wide encoders (read-only after construction).
func Encs() (*encoder.Encoders, encoder.Encoder) {
	encsOnce.Do(func() {
		e := jsonenc.NewEncoder()
		es := encoder.NewEncoders(e, e)

		if err := launch.LoadHinters(es); err != nil {
			panic(err)
		}

		must := func(err error) {
			if err != nil {
				panic(err)
			}
		}

		must(es.AddHinter(base.DummyManifest{}))
		must(es.AddHinter(base.DummyBlockMap{}))
		must(es.AddDetail(encoder.DecodeDetail{Hint: base.DummyNodeHint, Instance: base.BaseNode{}}))
		must(es.AddDetail(encoder.DecodeDetail{Hint: base.DummyStateValueHint, Instance: base.DummyStateValue{}}))
		must(es.AddDetail(encoder.DecodeDetail{Hint: isaac.DummyOperationFactHint, Instance: isaac.DummyOperationFact{}}))
		must(es.AddDetail(encoder.DecodeDetail{Hint: isaac.DummyOperationHint, Instance: isaac.DummyOperation{}}))
		must(es.AddDetail(encoder.DecodeDetail{Hint: isaacdatabase.DummySuffrageProofHint, Instance: isaacdatabase.DummySuffrageProof{}}))

		encs, enc = es, e
	})

	return encs, enc
}

var (
	nodesMu sync.Mutex
	nodes   = map[int]base.LocalNode{}
)

// Local returns the i-th deterministic local node (key derived from a seed string).
func Local(i int) base.LocalNode {
	nodesMu.Lock()
	defer nodesMu.Unlock()

	if n, ok := nodes[i]; ok {
		return n
	}

	priv, err := base.NewMPrivatekeyFromSeed(fmt.Sprintf("verif-deterministic-key-seed-%06d-padding-padding-padding", i))
	if err != nil {
		panic(err)
	}

	n := base.NewBaseLocalNode(base.DummyNodeHint, priv, base.NewStringAddress(fmt.Sprintf("node%03d", i)))
	nodes[i] = n

	return n
}

// Locals returns nodes [from, from+n).
func Locals(from, n int) []base.LocalNode {
	l := make([]base.LocalNode, n)
	for i := range l {
		l[i] = Local(from + i)
	}

	return l
}

func Nodes(ls []base.LocalNode) []base.Node {
	ns := make([]base.Node, len(ls))
	for i := range ls {
		ns[i] = ls[i]
	}

	return ns
}
