// Package launchh holds the launch-group harnesses (rate limiting).
package launchh

import (
	"context"
	"fmt"
	"net"
	"sort"
	"strconv"
	"strings"
	"time"

	"github.com/pkg/errors"
	"github.com/spikeekips/mitum/base"
	"github.com/spikeekips/mitum/launch"
	"github.com/spikeekips/mitum/simkit"
	"github.com/spikeekips/mitum/util"
	"github.com/spikeekips/mitum/util/valuehash"
	"github.com/spikeekips/mitum/vh/common"
)

// a rule of the run; bursts are unique in a run so that the burst printed in the result identifies the rule
type c36Rule struct {
	burst int
	d     time.Duration
	kind  int // 0 limited, 1 nolimit, 2 zero
}

func (x c36Rule) rule() launch.RateLimiterRule {
	switch x.kind {
	case 1:
		return launch.NoLimitRateLimiterRule()
	case 2:
		return launch.LimitRateLimiterRule()
	default:
		return launch.NewRateLimiterRule(x.d, x.burst)
	}
}

func (x c36Rule) name() string {
	switch x.kind {
	case 1:
		return "nolimit"
	case 2:
		return "0"
	default:
		return strconv.Itoa(x.burst)
	}
}

// a rule map: per-handler rules and an optional default
type c36Map struct {
	def     *c36Rule
	handler map[string]c36Rule
}

func (m *c36Map) lookup(h string) (c36Rule, bool) {
	if m == nil {
		return c36Rule{}, false
	}

	if x, ok := m.handler[h]; ok {
		return x, true
	}

	if m.def != nil {
		return *m.def, true
	}

	return c36Rule{}, false
}

func (m *c36Map) real() launch.RateLimiterRuleMap {
	var d *launch.RateLimiterRule
	if m.def != nil {
		x := m.def.rule()
		d = &x
	}

	hm := map[string]launch.RateLimiterRule{}
	for k, v := range m.handler {
		hm[k] = v.rule()
	}

	return launch.NewRateLimiterRuleMap(d, hm)
}

type c36Tables struct {
	clientid map[string]*c36Map
	nets     []struct {
		ipnet *net.IPNet
		m     *c36Map
	}
	nodes     map[string]*c36Map
	suffrage  *c36Map
	defmap    *c36Map
	consensus map[string]bool
}

// expected is the precedence of the statement.
func (t *c36Tables) expected(addr *net.UDPAddr, handler, clientID string, bound base.Address) (string, c36Rule) {
	if clientID != "" {
		if x, ok := t.clientid[clientID].lookup(handler); ok {
			return "clientid", x
		}
	}

	for _, n := range t.nets {
		if n.ipnet.Contains(addr.IP) {
			if x, ok := n.m.lookup(handler); ok {
				return "net", x
			}

			break
		}
	}

	if bound != nil {
		if x, ok := t.nodes[bound.String()].lookup(handler); ok {
			return "node", x
		}

		if t.consensus[bound.String()] {
			if x, ok := t.suffrage.lookup(handler); ok {
				return "suffrage", x
			}
		}
	}

	if x, ok := t.defmap.lookup(handler); ok {
		return "defaultmap", x
	}

	return "default", c36Rule{burst: 33, d: 3 * time.Second}
}

type c36Req struct {
	idle      time.Duration // how long the address had not been used before this request (-1: first use)
	uncertain bool          // the binding changed under the request, or a request of another rule shared the limiter
	at        time.Duration
	allowed   bool
	rule      string
	burst     int
	rate      float64 // per second; <0: no limit
}

func c36Run(r *simkit.Run) {
	handlers := []string{"h1", "h2"}
	addrs := []*net.UDPAddr{
		{IP: net.IPv4(10, 0, 0, 5), Port: 4001}, {IP: net.IPv4(10, 0, 0, 6), Port: 4002}, {IP: net.IPv4(192, 168, 1, 5), Port: 4003},
		{IP: net.IPv4(172, 16, 0, 9), Port: 4004},
	}
	clientIDs := []string{"", "", "cA", "cB"}
	nodes := []base.Address{common.Local(0).Address(), common.Local(1).Address()}

	nextBurst := 1
	newRule := func() c36Rule {
		switch r.Choose(8) {
		case 0:
			return c36Rule{kind: 1}
		case 1:
			return c36Rule{kind: 2}
		}

		nextBurst++
		if nextBurst == 33 {
			nextBurst++
		}

		return c36Rule{burst: nextBurst, d: []time.Duration{time.Second, 2 * time.Second, 10 * time.Second}[r.Choose(3)]}
	}

	newMap := func(withDefault bool) *c36Map {
		m := &c36Map{handler: map[string]c36Rule{}}
		if withDefault || r.Chance(1, 2) {
			x := newRule()
			m.def = &x
		}

		for _, h := range handlers {
			if r.Chance(1, 2) {
				m.handler[h] = newRule()
			}
		}

		if m.def == nil && len(m.handler) == 0 {
			m.handler[handlers[0]] = newRule()
		}

		return m
	}

	tables := &c36Tables{clientid: map[string]*c36Map{}, nodes: map[string]*c36Map{}, consensus: map[string]bool{}}
	rules := launch.NewRateLimiterRules()
	statehash := valuehash.RandomSHA256()

	rules.SetIsInConsensusNodesFunc(func() (util.Hash, func(base.Address) bool, error) {
		return statehash, func(a base.Address) bool { return tables.consensus[a.String()] }, nil
	})

	// the built-in rule tables of NewRateLimiterRules: a suffrage rule set with burst 900 / 90000
	tables.suffrage = &c36Map{def: &c36Rule{burst: 900, d: 3 * time.Second}, handler: map[string]c36Rule{}}
	tables.defmap = &c36Map{def: &c36Rule{burst: 33, d: 3 * time.Second}, handler: map[string]c36Rule{}}

	args := launch.NewRateLimitHandlerArgs()
	args.Rules = rules
	args.ExpireAddr = []time.Duration{2 * time.Second, 33 * time.Second}[r.Draw("expire_addr", 0, 1)]
	args.ShrinkInterval = []time.Duration{time.Second, 33 * time.Second}[r.Draw("shrink_interval", 0, 1)]
	args.PoolSizes = []uint64{2, 2, 2}

	if r.Flag("max_addrs_pressure") {
		args.MaxAddrs = uint64(1 + r.Choose(2))
	}

	h, err := launch.NewRateLimitHandler(args)
	if err != nil {
		panic(err)
	}

	ctx, cancel := context.WithCancel(context.Background())
	r.OnEnd(cancel)

	if err := h.Start(ctx); err != nil {
		panic(err)
	}

	// ---- admin actions, drawn up front ----
	type admin struct {
		kind int
		a, n int
	}

	// two focused populations beside the free mix: the identity of the selected rule changes while its numbers do
	// not - (4) the suffrage state hash changes and the requesting node stays a consensus node, (5) two client ids
	// with the same rules used in turn from one address. The budget belongs to the (address, handler) and its numbers:
	// neither change may refill it.
	scenario := r.Draw("scenario", 0, 5)

	nphases := r.Draw("phases", 1, 4)
	if scenario >= 4 && nphases < 2 {
		nphases = 2
	}
	adminPlan := make([][]admin, nphases)
	type reqPlan struct {
		a, h, c int
		sleep   time.Duration
	}

	clientPlan := make([][][]reqPlan, nphases)

	for p := 0; p < nphases; p++ {
		for k := r.Choose(4); k > 0; k-- {
			adminPlan[p] = append(adminPlan[p], admin{kind: r.Choose(7), a: r.Choose(len(addrs)), n: r.Choose(len(nodes))})
		}

		nclients := 1 + r.Choose(3)
		clientPlan[p] = make([][]reqPlan, nclients)

		for c := range clientPlan[p] {
			for k := 1 + r.Choose(12); k > 0; k-- {
				clientPlan[p][c] = append(clientPlan[p][c], reqPlan{
					a: r.Choose(len(addrs)), h: r.Choose(len(handlers)), c: r.Choose(len(clientIDs)),
					sleep: []time.Duration{time.Microsecond, time.Microsecond, time.Millisecond, 100 * time.Millisecond, 700 * time.Millisecond, 3 * time.Second}[r.Choose(6)],
				})
			}
		}
	}

	if scenario >= 4 {
		r.Probe(map[int]string{4: "scenario_state_hash_changes_member_stays", 5: "scenario_twin_client_ids"}[scenario])

		for p := 0; p < nphases; p++ {
			switch {
			case scenario == 4 && p == 0:
				adminPlan[p] = []admin{{kind: 3}, {kind: 5, a: 0, n: 0}, {kind: 6, n: -1}}
			case scenario == 4:
				adminPlan[p] = []admin{{kind: 6, n: -1}}
			case p == 0:
				adminPlan[p] = []admin{{kind: 0, n: -1}}
			default:
				adminPlan[p] = nil
			}

			for c := range clientPlan[p] {
				for k := range clientPlan[p][c] {
					q := &clientPlan[p][c][k]
					q.a, q.h, q.c = 0, 0, 0

					if scenario == 5 {
						q.c = 2 + (k+c)%2
					}

					q.sleep = []time.Duration{time.Microsecond, time.Microsecond, time.Millisecond, 100 * time.Millisecond}[r.Choose(4)]
				}
			}
		}
	}

	history := map[string][]c36Req{}

	type flight struct {
		from, to int64
		want     string
	}

	flights := map[string][]*flight{}
	start := time.Now()
	lastAccess := map[string]time.Duration{}
	evicted := map[string]bool{}

	doAdmin := func(a admin) {
		switch a.kind {
		case 0: // client id rules
			tables.clientid = map[string]*c36Map{}
			real := map[string]launch.RateLimiterRuleMap{}

			var twin *c36Map
			if a.n == -1 { // both client ids get the same rules
				twin = newMap(true)
			}

			for _, c := range []string{"cA", "cB"} {
				switch {
				case twin != nil:
					tables.clientid[c] = twin
					real[c] = twin.real()
				case r.Chance(1, 2):
					m := newMap(false)
					tables.clientid[c] = m
					real[c] = m.real()
				}
			}

			_ = rules.SetClientIDRuleSet(launch.NewClientIDRateLimiterRuleSet(real))
			r.Op("admin: client-id rules for %v", keys(tables.clientid))
		case 1: // net rules (every map has a default, so the first containing net always answers)
			tables.nets = nil
			rs := launch.NewNetRateLimiterRuleSet()

			for _, cidr := range []string{"10.0.0.0/24", "10.0.0.0/8", "192.168.0.0/16"} {
				if r.Chance(1, 2) {
					_, ipnet, _ := net.ParseCIDR(cidr)
					m := newMap(true)
					tables.nets = append(tables.nets, struct {
						ipnet *net.IPNet
						m     *c36Map
					}{ipnet, m})
					rs.Add(ipnet, m.real())
				}
			}

			_ = rules.SetNetRuleSet(rs)
			r.Op("admin: %d net rules", len(tables.nets))
		case 2: // node rules
			tables.nodes = map[string]*c36Map{}
			real := map[string]launch.RateLimiterRuleMap{}

			for _, n := range nodes {
				if r.Chance(1, 2) {
					m := newMap(false)
					tables.nodes[n.String()] = m
					real[n.String()] = m.real()
				}
			}

			_ = rules.SetNodeRuleSet(launch.NewNodeRateLimiterRuleSet(real))
			r.Op("admin: node rules for %d nodes", len(tables.nodes))
		case 3: // suffrage rules
			m := newMap(true)
			tables.suffrage = m
			_ = rules.SetSuffrageRuleSet(launch.NewSuffrageRateLimiterRuleSet(m.real()))
			r.Op("admin: suffrage rules")
		case 4: // default map
			m := newMap(true)
			tables.defmap = m
			_ = rules.SetDefaultRuleMap(m.real())
			r.Op("admin: default map")
		case 5: // bind an address to a node (as the node challenge does)
			ok := h.AddNode(addrs[a.a], nodes[a.n])
			r.Op("admin: AddNode(%s, node%d) -> %v", addrs[a.a], a.n, ok)
		case 6: // consensus nodes change
			tables.consensus = map[string]bool{}
			for _, n := range nodes {
				if r.Chance(1, 2) {
					tables.consensus[n.String()] = true
				}
			}

			// the membership covers the suffrage and its candidates, the hash is the suffrage state's: candidates come
			// and go under an unchanged hash
			sameHash := r.Chance(1, 2)

			if a.n == -1 { // the first node stays a member, the state hash changes
				tables.consensus[nodes[0].String()] = true
				sameHash = false
			}

			if !sameHash {
				statehash = valuehash.RandomSHA256()
			} else {
				r.Probe("consensus_nodes_changed_under_the_same_state_hash")
			}

			r.Op("admin: consensus nodes now %d (state hash changed=%v)", len(tables.consensus), !sameHash)
		}
	}

	request := func(who string, q reqPlan) {
		addr, handler, cid := addrs[q.a], handlers[q.h], clientIDs[q.c]
		key := addr.String() + "/" + handler

		// state strictly before the request
		bound := h.VerifBoundNode(addr.String())
		had := h.VerifHasAddr(addr.String())
		now := time.Since(start)

		idle := time.Duration(-1)
		if la, ok := lastAccess[addr.String()]; ok {
			idle = now - la
		}

		if la, ok := lastAccess[addr.String()]; ok && !had && now-la < args.ExpireAddr {
			// the address was dropped although it was not idle long enough: only max-addrs pressure does that
			evicted[addr.String()] = true
			r.Probe("addr_evicted_by_max_addrs")
		}

		wantType, wantRule := tables.expected(addr, handler, cid, bound)
		fl := &flight{from: r.Seq(), want: wantType + ":" + wantRule.name()}
		flights[key] = append(flights[key], fl)

		rctx := context.WithValue(context.Background(), launch.RateLimiterLimiterNameContextKey, handler)
		if cid != "" {
			rctx = context.WithValue(rctx, launch.RateLimiterClientIDContextKey, cid)
		}

		var res launch.RateLimiterResult

		haveRes := false

		// the result closure reads the shared limiter lazily: take it inside the callback, at the decision, not later
		_, err := h.Func(rctx, addr, func(c context.Context) (context.Context, error) {
			if f, ok := c.Value(launch.RateLimiterResultContextKey).(func() launch.RateLimiterResult); ok {
				res = f()
				haveRes = true
			}

			return c, nil
		})

		fl.to = r.Seq()

		// the shrink daemon may drop an idle address (and its node binding) between the read above and the request
		boundAfter := h.VerifBoundNode(addr.String())
		if (bound == nil) != (boundAfter == nil) || (bound != nil && !bound.Equal(boundAfter)) {
			haveRes = false
			r.Probe("binding_changed_during_request_not_judged")
		}

		allowed := err == nil
		if err != nil && !errors.Is(err, launch.ErrRateLimited) {
			r.Fail("request-error", "error", "Func: %v", err)
		}

		lastAccess[addr.String()] = now
		r.Checked()

		gotName := res.Limiter
		if i := strings.Index(gotName, "/"); i > 0 {
			gotName = gotName[:i]
		}

		r.Event(fmt.Sprintf("@%v %s %s %s cid=%q -> %s %s allowed=%v", r.Now(), who, addr, handler, cid, res.RulesetType, res.Limiter, allowed))

		if haveRes && (res.RulesetType != wantType || gotName != wantRule.name()) {
			sig := fmt.Sprintf("want-%s-got-%s", wantType, res.RulesetType)

			// limiters are keyed by (address, handler) and updated in place: a request of
			// another client on the same key, in flight at the same time, can switch the limiter under this one
			for _, o := range flights[key] {
				if o != fl && o.want != fl.want && o.from <= fl.to && (o.to == 0 || o.to >= fl.from) {
					sig = "concurrent-requests-of-different-rules-share-one-limiter"
				}
			}
			r.Fail("wrong-rule", sig, "request addr=%s handler=%s client-id=%q bound-node=%v: limiter %s of type %q was used; by precedence the %q rule with burst %s applies",
				addr, handler, cid, bound, res.Limiter, res.RulesetType, wantType, wantRule.name())
		}

		rate := -1.0
		if wantRule.kind == 0 {
			rate = float64(wantRule.burst) / wantRule.d.Seconds()
		} else if wantRule.kind == 2 {
			rate = 0
		}

		uncertain := !haveRes && allowed

		for _, o := range flights[key] {
			if o != fl && o.want != fl.want && o.from <= fl.to && (o.to == 0 || o.to >= fl.from) {
				uncertain = true
			}
		}

		history[key] = append(history[key], c36Req{idle: idle, uncertain: uncertain, at: now, allowed: allowed, rule: wantType + ":" + wantRule.name(), burst: wantRule.burst, rate: rate})

		if wantRule.kind == 2 && allowed && !uncertain {
			r.Fail("over-rate", "zero-rule-allowed", "a request under a zero rule was allowed")
		}
	}

	for p := 0; p < nphases; p++ {
		p := p

		r.Do(fmt.Sprintf("admin%d", p), func() {
			for _, a := range adminPlan[p] {
				time.Sleep(time.Microsecond)
				doAdmin(a)
			}

			time.Sleep(time.Microsecond)
		})

		for c := range clientPlan[p] {
			c := c

			r.Go(fmt.Sprintf("client%d.%d", p, c), func() {
				for _, q := range clientPlan[p][c] {
					time.Sleep(q.sleep)
					request(fmt.Sprintf("c%d", c), q)
				}
			})
		}

		r.Sched(simkit.SchedOpts{MaxSteps: 2000000, Stick: r.DrawStick(), Quanta: []time.Duration{time.Microsecond, time.Millisecond, 50 * time.Millisecond, time.Second}, MaxSim: time.Hour})

		if r.Unfinished() {
			r.Fail("liveness", "ratelimit", "clients did not finish")
		}
	}

	stopped := false
	r.Go("stop", func() { _ = h.Stop(); stopped = true })
	r.Sched(simkit.SchedOpts{MaxSteps: 200000, KeepGoing: true, Until: func() bool { return stopped }, MaxSim: 2 * time.Hour})

	// ---- within any window: allowed <= burst + rate x window (per address+handler, while the rule stayed the same) ----
	hkeys := make([]string, 0, len(history))
	for key := range history {
		hkeys = append(hkeys, key)
	}

	sort.Strings(hkeys)

	for _, key := range hkeys {
		reqs := history[key]
		addr := key[:strings.LastIndex(key, "/")]

		for i := 0; i < len(reqs); i++ {
			if !reqs[i].allowed || reqs[i].rate < 0 || reqs[i].uncertain {
				continue
			}

			count := 0

			for j := i; j < len(reqs); j++ {
				if reqs[j].rule != reqs[i].rule || reqs[j].uncertain {
					break
				}

				// an address dropped for inactivity legitimately starts afresh
				if j > i && reqs[j].at-reqs[j-1].at >= args.ExpireAddr {
					break
				}

				if !reqs[j].allowed {
					continue
				}

				count++
				window := (reqs[j].at - reqs[i].at).Seconds()
				limit := float64(reqs[i].burst) + reqs[i].rate*window + 1e-6

				r.Checked()

				if float64(count) > limit {
					sig := "same-limiter"

					// under max-addrs pressure (more addresses in use than MaxAddrs) an address can be pushed out and come
					// back with a fresh limiter at any moment - also between the sample of the pool taken before a request
					// and the request itself, by a concurrent client at the same instant: every over-rate window of such a
					// run is the recorded eviction finding; the window budget is judged strictly in the runs without pressure
					pressure := args.MaxAddrs > 0 && uint64(len(addrs)) > args.MaxAddrs

					switch {
					case evicted[addr], pressure:
						sig = "after-eviction-by-max-addrs"
					case reqs[i].idle >= args.ExpireAddr:
						// the window starts with the first request after an idle period: the shrink daemon
						// judged the address idle and dropped it although this request had just used its limiter
						sig = "idle-address-dropped-while-its-next-request-is-served"
					}

					r.Fail("over-rate", sig, "%s under rule %s: %d requests allowed within %.6fs, the rule permits burst %d + %.3f/s x window = %.3f",
						key, reqs[i].rule, count, window, reqs[i].burst, reqs[i].rate, limit)
				}
			}
		}
	}
}

func keys(m map[string]*c36Map) []string {
	var k []string
	for x := range m {
		k = append(k, x)
	}

	sort.Strings(k)

	return k
}

func init() {
	simkit.Register(&simkit.Harness{
		ID:          "C36",
		Run:         c36Run,
		Real:        []string{"launch.RateLimitHandler (Func, AddNode, shrink daemon)", "launch.RateLimiterRules and every rule set", "launch.RateLimiter over golang.org/x/time/rate", "addrPool"},
		Stub:        []string{"consensus-node lookup (harness function)", "verif-tagged accessor reading the address pool (has address, bound node)"},
		Rule:        "each run draws 1-4 phases; in each an admin changes rule tables (client-id, nets, node, suffrage, default map; rule bursts unique per run so the result identifies the rule), binds addresses to nodes and changes the consensus nodes, then 1-3 concurrent clients issue requests from 4 addresses x 2 handlers x 3 client ids with sleeps from 1 us to 3 s on the fake clock, while the shrink daemon runs (expiry 2 s/33 s, optional max-addrs pressure). A third of the runs are focused: the suffrage state hash changes between phases while the requesting node stays a member, or two client ids with the same rules are used in turn from one address - the identity of the selected rule changes, its numbers do not, and the window budget must hold across the change. Every result is compared with the statement's precedence evaluated on the tables strictly before the request; afterwards every window of allowed requests per (address, handler) under an unchanged rule must fit burst + rate x window. distinct = event-log hash",
		Assumptions: []string{"causally ordered actions are at least 1 us apart on the fake clock (the code compares nanosecond stamps)", "every net rule map has a default, so 'first matching network' is unambiguous", "an address idle for ExpireAddr legitimately starts with a fresh limiter"},
	})
}
