package proph

import (
	"context"
	"fmt"
	"time"

	"github.com/pkg/errors"
	"github.com/spikeekips/mitum/base"
	"github.com/spikeekips/mitum/isaac"
	"github.com/spikeekips/mitum/simkit"
	"github.com/spikeekips/mitum/util"
	"github.com/spikeekips/mitum/util/valuehash"
	"github.com/spikeekips/mitum/vh/common"
)

// C11: ProposalProcessors saves a processed proposal only for the agreed
// manifest, at most once per height and never at or below a saved height.
//
// Real: isaac.ProposalProcessors, isaac.DefaultProposalProcessor, the block
// writer and the operation processors. The "block saved" event is the
// mergeDatabase callback of the block writer (the point where a block becomes
// part of the local chain).

type c11Proposal struct {
	pr     base.ProposalSignFact
	ops    map[string]base.Operation
	ivp    base.INITVoteproof
	prev   base.Manifest
	desc   string
	known  util.Hash // manifest hash observed by a client from Process
	height base.Height
}

type c11Instance struct {
	id       int
	prop     *c11Proposal
	manifest base.Manifest // what this processor computed
	saved    int
}

type c11PP struct {
	*isaac.DefaultProposalProcessor
	inst *c11Instance
}

func (p *c11PP) Process(ctx context.Context, ivp base.INITVoteproof) (base.Manifest, error) {
	m, err := p.DefaultProposalProcessor.Process(ctx, ivp)
	if err == nil && m != nil {
		p.inst.manifest = m
	}

	return m, err
}

type c11SaveCall struct {
	fact   util.Hash
	avp    base.ACCEPTVoteproof
	desc   string
	active bool
}

// c11Writer counts the calls of BlockWriter.Save (the boundary at which the property is observed): one processor
// hands its block to the writer at most once, whatever the writer then does with the call.
type c11Writer struct {
	isaac.BlockWriter
	onSave func()
}

func (w *c11Writer) Save(ctx context.Context) (base.BlockMap, error) {
	w.onSave()

	return w.BlockWriter.Save(ctx)
}

// SetINITVoteproof is the first thing a save does with the writer once it has passed the once-only and the
// manifest checks: a second call means a second save got through to the writer.
func (w *c11Writer) SetINITVoteproof(ctx context.Context, ivp base.INITVoteproof) error {
	w.onSave()

	return w.BlockWriter.SetINITVoteproof(ctx, ivp)
}

func c11CountSaves(args *isaac.DefaultProposalProcessorArgs, onSave func()) {
	inner := args.NewWriterFunc

	args.NewWriterFunc = func(pr base.ProposalSignFact, getStatef base.GetStateFunc) (isaac.BlockWriter, error) {
		bw, err := inner(pr, getStatef)
		if err != nil {
			return nil, err
		}

		return &c11Writer{BlockWriter: bw, onSave: onSave}, nil
	}
}

// c11Direct drives one DefaultProposalProcessor directly: Process, several Save calls (with the ACCEPT majority
// for the manifest, or for another block) and Cancel from several goroutines. The manifest is learnt beforehand from
// a first processor over the same input, so that a Save with the matching voteproof can arrive while the proposal
// is still being processed.
func c11Direct(r *simkit.Run) {
	w := prodBuildWorld(r)
	ops := prodBuildOps(r, w)
	cluster := &common.Cluster{Nodes: w.members, Threshold: w.threshold}

	var order []int

	for k := range ops {
		if r.Chance(1, 2) {
			order = append(order, k)
		}
	}

	pr, opmap := prodProposal(w, ops, order)
	ivp := prodINITVoteproof(w, pr, -1)

	first := w.process(r, "first", pr, ivp, opmap, 1)
	if first.m == nil {
		r.Probe("direct_proposal_not_processable")

		return
	}

	manifest := first.m.Hash()

	saved := 0
	matchingInFlight := 0
	fs := &prodFS{states: map[string]base.State{}, r: r}

	args := w.newProcessorArgs(r, opmap, []int64{1, 2, 8}[r.Choose(3)], fs, func() {
		r.Checked()
		r.Probe("block_saved")

		saved++

		if saved > 1 {
			r.Fail("saved-twice", "same-processor:direct", "the processor of %s saved its block %d times", pr.Point(), saved)
		}

		if matchingInFlight == 0 {
			r.Fail("saved-without-agreement", "newblock-mismatch:direct", "the block of %s (manifest %.12s) was saved while no Save call with an ACCEPT majority for that manifest was in flight", pr.Point(), manifest)
		}
	})

	writerSaves := 0

	c11CountSaves(args, func() {
		writerSaves++

		if writerSaves > 2 { // SetINITVoteproof + Save of the one save that is allowed
			r.Fail("saved-twice", "second-save-reached-the-writer:direct", "the processor of %s went to its block writer with a second save (%d calls of SetINITVoteproof/Save)", pr.Point(), writerSaves)
		}
	})

	pp, err := isaac.NewDefaultProposalProcessor(pr, w.prevManifest, args)
	if err != nil {
		panic(err)
	}

	r.Go("process", func() {
		if r.Chance(1, 3) {
			time.Sleep(time.Duration(r.Choose(20)) * time.Millisecond)
		}

		m, err := pp.Process(context.Background(), ivp)
		r.Op("direct: Process -> manifest=%v err=%v", m != nil, err != nil)
	})

	nsavers := 2 + r.Choose(2)

	for i := 0; i < nsavers; i++ {
		i := i

		r.Go(fmt.Sprintf("saver%d", i), func() {
			if r.Chance(1, 2) {
				time.Sleep(time.Duration(r.Choose(30)) * time.Millisecond)
			}

			nb := util.Hash(manifest)
			matching := true

			if r.Chance(1, 4) {
				nb, matching = valuehash.RandomSHA256(), false
			}

			avp := cluster.MajorityACCEPT(pr.Point(), pr.Fact().Hash(), nb)

			if matching {
				matchingInFlight++
			}

			bm, err := pp.Save(context.Background(), avp)

			if matching {
				matchingInFlight--
			}

			r.Op("direct: saver%d Save(matching=%v) -> blockmap=%v err=%v", i, matching, bm != nil, err != nil)

			if err == nil && bm != nil {
				r.Probe("save_ok")
			}
		})
	}

	if r.Chance(1, 3) {
		r.Go("canceller", func() {
			time.Sleep(time.Duration(r.Choose(30)) * time.Millisecond)
			r.Op("direct: Cancel")

			_ = pp.Cancel()
		})
	}

	r.Sched(simkit.SchedOpts{MaxSteps: 3000000, Stick: r.DrawStick(), MaxSim: 2 * time.Hour, Quanta: []time.Duration{time.Millisecond, 10 * time.Millisecond, 100 * time.Millisecond}})

	if r.Unfinished() {
		r.Fail("liveness", "direct", "Process/Save/Cancel calls on the processor did not all return (%d still running)", r.Live())
	}

	r.Sched(simkit.SchedOpts{MaxSteps: 100000, KeepGoing: true, MaxSim: 3 * time.Hour, Until: func() bool { return len(r.Parked()) == 0 }})
}

func c11Run(r *simkit.Run) {
	if r.Draw("population", 0, 3) == 0 { // a quarter of the runs: one processor driven directly
		c11Direct(r)

		return
	}

	w := prodBuildWorld(r)
	ops := prodBuildOps(r, w)
	cluster := &common.Cluster{Nodes: w.members, Threshold: w.threshold}

	nprops := r.Draw("proposals", 2, 4)
	props := make([]*c11Proposal, nprops)
	byFact := map[string]*c11Proposal{}

	for i := range props {
		var order []int

		for k := range ops {
			if r.Chance(1, 2) {
				order = append(order, k)
			}
		}

		height := w.height + base.Height(r.Choose(3))
		point := base.NewPoint(height, base.Round(i))
		prev := base.NewDummyManifest(height-1, valuehash.RandomSHA256())

		pr, opmap := prodProposalAt(w, ops, order, point, prev.Hash())
		props[i] = &c11Proposal{
			pr: pr, ops: opmap, prev: prev, height: height,
			ivp:  prodINITVoteproofAt(w, pr, -1, point, prev.Hash()),
			desc: fmt.Sprintf("P%d(height=%d round=%d ops=%d)", i, height, i, len(order)),
		}
		byFact[pr.Fact().Hash().String()] = props[i]
	}

	var instances []*c11Instance

	var inflight []*c11SaveCall

	lastSaved := base.NilHeight
	savedAt := map[base.Height]string{}

	wsizes := []int64{1, 2, 8}

	pps := isaac.NewProposalProcessors(
		func(pr base.ProposalSignFact, previous base.Manifest) (isaac.ProposalProcessor, error) {
			if r.Chance(1, 10) {
				r.Fault("makenew_error")

				return nil, errors.Errorf("verif: make new processor failed")
			}

			prop := byFact[pr.Fact().Hash().String()]
			inst := &c11Instance{id: len(instances), prop: prop}
			instances = append(instances, inst)

			fs := &prodFS{states: map[string]base.State{}, r: r}
			args := w.newProcessorArgs(r, prop.ops, wsizes[r.Choose(len(wsizes))], fs, func() {
				// ---- the block of this processor becomes part of the chain ----
				r.Checked()
				r.Probe("block_saved")

				inst.saved++
				h := prop.height

				var why string

				ok := false

				for _, c := range inflight {
					if !c.active {
						continue
					}

					switch {
					case !c.fact.Equal(prop.pr.Fact().Hash()):
						why = "fact-mismatch"
					case inst.manifest == nil:
						why = "manifest-not-computed"
					case !c.avp.BallotMajority().NewBlock().Equal(inst.manifest.Hash()):
						why = "newblock-mismatch"
					default:
						ok = true
					}
				}

				if !ok {
					var calls []string
					for _, c := range inflight {
						if c.active {
							calls = append(calls, c.desc)
						}
					}

					r.Fail("saved-without-agreement", why, "the block of %s (processor #%d, manifest %v) was saved, but no Save call in flight carries an ACCEPT majority for that proposal and manifest; calls in flight: %v",
						prop.desc, inst.id, manifestString(inst.manifest), calls)
				}

				if inst.saved > 1 {
					r.Fail("saved-twice", "same-processor", "processor #%d of %s saved its block %d times", inst.id, prop.desc, inst.saved)
				}

				if h <= lastSaved {
					sig := "lower-height"
					if _, found := savedAt[h]; found {
						sig = "same-height"
					}

					r.Fail("height-not-above-saved", sig, "block of %s saved at height %d after height %d was saved (%s)", prop.desc, h, lastSaved, savedAt[lastSaved])
				}

				lastSaved = h
				savedAt[h] = prop.desc
			})

			writerSaves := 0

			c11CountSaves(args, func() {
				writerSaves++

				if writerSaves > 2 { // SetINITVoteproof + Save of the one save that is allowed
					r.Fail("saved-twice", "second-save-reached-the-writer", "processor #%d of %s went to its block writer with a second save (%d calls of SetINITVoteproof/Save)", inst.id, prop.desc, writerSaves)
				}
			})

			pp, err := isaac.NewDefaultProposalProcessor(pr, previous, args)
			if err != nil {
				return nil, err
			}

			return &c11PP{DefaultProposalProcessor: pp, inst: inst}, nil
		},
		func(ctx context.Context, _ base.Point, fact util.Hash) (base.ProposalSignFact, error) {
			if r.Chance(1, 8) {
				r.Fault("getproposal_error")

				return nil, errors.Errorf("verif: proposal not found yet")
			}

			if r.Chance(1, 4) {
				select {
				case <-ctx.Done():
					return nil, ctx.Err()
				case <-time.After(time.Duration(1+r.Choose(50)) * time.Millisecond):
				}
			}

			p, ok := byFact[fact.String()]
			if !ok {
				return nil, nil
			}

			return p.pr, nil
		},
	)
	pps.SetRetryInterval(time.Duration(1+r.Choose(30)) * time.Millisecond).SetRetryLimit(2 + r.Choose(3))

	var cancels []func()

	avpFor := func(p *c11Proposal, newblock util.Hash) base.ACCEPTVoteproof {
		return cluster.MajorityACCEPT(p.pr.Point(), p.pr.Fact().Hash(), newblock)
	}

	nclients := r.Draw("clients", 1, 3)
	nactions := 3 + r.Choose(4)

	if r.Tier == "thorough" {
		nactions += 3
	}

	for c := 0; c < nclients; c++ {
		c := c

		r.Go(fmt.Sprintf("client%d", c), func() {
			for a := 0; a < nactions; a++ {
				p := props[r.Choose(len(props))]

				switch r.Choose(8) {
				case 0, 1, 2: // process, as the consensus handler does
					ctx, cancel := context.WithCancel(context.Background())
					cancels = append(cancels, cancel)

					r.Op("client%d: Process %s", c, p.desc)

					pf, err := pps.Process(ctx, p.pr.Point(), p.pr.Fact().Hash(), p.prev, p.ivp)
					if err != nil || pf == nil {
						continue
					}

					wctx, wcancel := context.WithTimeout(context.Background(), time.Duration(1+r.Choose(2000))*time.Millisecond)
					m, err := pf(wctx)

					wcancel()

					if err == nil && m != nil {
						p.known = m.Hash()
						r.Probe("processed")

						if r.Chance(1, 2) { // and the network agreed on that block
							avp := avpFor(p, p.known)
							call := &c11SaveCall{fact: p.pr.Fact().Hash(), avp: avp, active: true, desc: fmt.Sprintf("Save(%s, avp newblock=%.8s matching)", p.desc, p.known)}
							inflight = append(inflight, call)

							r.Op("client%d: %s", c, call.desc)

							bm, err := pps.Save(context.Background(), call.fact, avp)

							call.active = false

							if err == nil && bm != nil {
								r.Probe("save_ok")
							}
						}
					}
				case 3, 4, 5: // save
					var avp base.ACCEPTVoteproof

					fact := p.pr.Fact().Hash()
					desc := ""

					switch v := r.Choose(6); {
					case v <= 2 && p.known != nil: // the agreed block is the one processed
						avp = avpFor(p, p.known)
						desc = "matching"
						r.Probe("save_matching")
					case v == 3: // the majority agreed on another block
						avp = avpFor(p, valuehash.RandomSHA256())
						desc = "other new block"
						r.Probe("save_other_newblock")
					case v == 4: // the majority's block is the manifest of another proposal
						q := props[r.Choose(len(props))]
						if q.known == nil || q == p {
							avp = avpFor(p, valuehash.RandomSHA256())
							desc = "other new block"
						} else {
							avp = avpFor(p, q.known)
							desc = "new block of " + q.desc
							r.Probe("save_newblock_of_other_proposal")
						}
					default: // majority for another proposal than the processed one (with its right manifest, if known)
						nb := util.Hash(valuehash.RandomSHA256())
						if p.known != nil {
							nb = p.known
						}

						avp = avpFor(p, nb)
						desc = "any"
					}

					call := &c11SaveCall{fact: fact, avp: avp, active: true, desc: fmt.Sprintf("Save(%s, avp newblock=%.8s %s)", p.desc, avp.BallotMajority().NewBlock(), desc)}
					inflight = append(inflight, call)

					r.Op("client%d: %s", c, call.desc)

					bm, err := pps.Save(context.Background(), fact, avp)

					call.active = false

					if err == nil && bm != nil {
						r.Probe("save_ok")
					}
				case 6:
					r.Op("client%d: Cancel", c)

					_ = pps.Cancel()
				default:
					if len(cancels) > 0 {
						r.Op("client%d: cancel a Process context", c)
						r.Fault("process_ctx_cancel")
						cancels[r.Choose(len(cancels))]()
					}
				}
			}
		})
	}

	r.Sched(simkit.SchedOpts{MaxSteps: 3000000, Stick: r.DrawStick(), MaxSim: 2 * time.Hour, Quanta: []time.Duration{time.Millisecond, 10 * time.Millisecond, 100 * time.Millisecond}})

	if r.Unfinished() {
		r.Fail("liveness", "clients", "Process/Save/Cancel calls did not all return (%d clients still running)", r.Live())
	}

	r.Sched(simkit.SchedOpts{MaxSteps: 100000, KeepGoing: true, MaxSim: 3 * time.Hour, Until: func() bool { return len(r.Parked()) == 0 }})
}

func manifestString(m base.Manifest) string {
	if m == nil {
		return "<none>"
	}

	return m.Hash().String()
}

func init() {
	simkit.Register(&simkit.Harness{
		ID:          "C11",
		Run:         c11Run,
		Real:        []string{"isaac.ProposalProcessors", "isaac.DefaultProposalProcessor", "isaacblock.Writer", "isaacoperation processors", "isaacdatabase.LeveldbBlockWrite on memory storage", "util.Retry", "util.BaseJobWorker"},
		Stub:        []string{"block file writer (recorder)", "proposal source and processor factory (map; injected errors and latency)", "database merge (the observation point)"},
		Rule:        "each run builds 2-4 proposals at 1-3 heights over a random prior state; 1-3 client tasks issue 3-9 calls each of Process (then wait for the manifest as the consensus handler does), Save with an ACCEPT voteproof (majority for the processed manifest, for a random block, for the manifest of another proposal), Cancel, and cancellation of a Process context, under seeded interleaving with proposal-fetch/processor-factory errors. At every database merge of a block writer: a Save call in flight must carry an ACCEPT majority whose proposal is the processor's and whose new block equals the manifest that processor computed; no processor saves twice; saved heights strictly increase. distinct = event-log hash",
		Assumptions: []string{"ACCEPT voteproofs handed to Save have a majority (the handlers never save on a draw) and their point is the proposal's point"},
	})
}
