package proph

import (
	"context"
	"fmt"
	"sort"
	"strings"
	"time"

	"github.com/pkg/errors"
	"github.com/spikeekips/mitum/base"
	"github.com/spikeekips/mitum/isaac"
	isaacblock "github.com/spikeekips/mitum/isaac/block"
	isaacdatabase "github.com/spikeekips/mitum/isaac/database"
	isaacoperation "github.com/spikeekips/mitum/isaac/operation"
	"github.com/spikeekips/mitum/simkit"
	leveldbstorage "github.com/spikeekips/mitum/storage/leveldb"
	"github.com/spikeekips/mitum/util"
	"github.com/spikeekips/mitum/util/fixedtree"
	"github.com/spikeekips/mitum/util/hint"
	"github.com/spikeekips/mitum/util/valuehash"
	"github.com/spikeekips/mitum/vh/common"
)

// ---- the world before the block ----

type prodWorld struct {
	height       base.Height
	threshold    base.Threshold
	members      []base.LocalNode // current suffrage
	memberSt     []base.SuffrageNodeStateValue
	sufHeight    base.Height
	candidates   []prodCandidate
	states       map[string]base.State
	prevManifest base.Manifest
	policy       isaac.NetworkPolicy
}

type prodCandidate struct {
	node     base.LocalNode
	start    base.Height
	deadline base.Height
}

type prodOp struct {
	desc string
	op   base.Operation
	// facts for the C17 clauses
	kind        string // join, candidate, disjoin, policy
	target      base.Address
	selfSigned  bool // signed by the target's registered key
	memberSigns int  // distinct current members that signed with their registered key
	startOK     bool
}

func (w *prodWorld) getState(key string) (base.State, bool, error) {
	st, ok := w.states[key]

	return st, ok, nil
}

func prodBuildWorld(r *simkit.Run) *prodWorld {
	w := &prodWorld{height: 33, threshold: []base.Threshold{67, 100, 60}[r.Choose(3)], states: map[string]base.State{}}

	nm := r.Draw("members", 1, 5)
	w.members = common.Locals(0, nm)
	w.sufHeight = base.Height(3 + r.Choose(3))

	w.memberSt = make([]base.SuffrageNodeStateValue, nm)
	for i, m := range w.members {
		w.memberSt[i] = isaac.NewSuffrageNodeStateValue(isaac.NewNode(m.Publickey(), m.Address()), base.Height(1+i))
	}

	w.states[isaac.SuffrageStateKey] = base.NewBaseState(w.height-1, isaac.SuffrageStateKey,
		isaac.NewSuffrageNodesStateValue(w.sufHeight, w.memberSt), valuehash.RandomSHA256(), []util.Hash{valuehash.RandomSHA256()})

	nc := r.Draw("candidates", 0, 4)

	var cvs []base.SuffrageCandidateStateValue

	for i := 0; i < nc; i++ {
		c := prodCandidate{node: common.Local(10 + i), start: w.height - base.Height(1+r.Choose(5))}
		c.deadline = w.height + base.Height(r.Choose(6))

		if r.Chance(1, 4) {
			c.deadline = w.height - base.Height(1+r.Choose(3)) // expired
		}

		w.candidates = append(w.candidates, c)
		cvs = append(cvs, isaac.NewSuffrageCandidateStateValue(isaac.NewNode(c.node.Publickey(), c.node.Address()), c.start, c.deadline))
	}

	if nc > 0 {
		w.states[isaac.SuffrageCandidateStateKey] = base.NewBaseState(w.height-1, isaac.SuffrageCandidateStateKey,
			isaac.NewSuffrageCandidatesStateValue(cvs), valuehash.RandomSHA256(), []util.Hash{valuehash.RandomSHA256()})
	}

	w.policy = isaac.DefaultNetworkPolicy()
	w.states[isaac.NetworkPolicyStateKey] = base.NewBaseState(w.height-1, isaac.NetworkPolicyStateKey,
		isaac.NewNetworkPolicyStateValue(w.policy), valuehash.RandomSHA256(), []util.Hash{valuehash.RandomSHA256()})

	pm := base.NewDummyManifest(w.height-1, valuehash.RandomSHA256())
	w.prevManifest = pm

	return w
}

func (w *prodWorld) required() int { return int(w.threshold.Threshold(uint(len(w.members)))) }

// signMembers adds the signatures of k members (maybe one with a wrong key, maybe a foreign signer).
func (w *prodWorld) memberSigners(r *simkit.Run, enough bool) (signers []base.LocalNode, distinct int) {
	need := w.required()

	k := need
	if !enough {
		k = r.Choose(need) // fewer than required
	} else if need < len(w.members) && r.Chance(1, 2) {
		k = need + r.Choose(len(w.members)-need+1)
	}

	perm := r.Choose(len(w.members))
	for i := 0; i < k; i++ {
		signers = append(signers, w.members[(perm+i)%len(w.members)])
	}

	return signers, k
}

// forgeMemberSigns adds, now and then, signs that name members who did not sign, made with a key that is not theirs:
// well-formed node signs (each verifies against the key it carries) that must not count as the members' approval.
func (w *prodWorld) forgeMemberSigns(r *simkit.Run, signers []base.LocalNode, sign func(base.Privatekey, base.Address)) int {
	if !r.Chance(1, 4) {
		return 0
	}

	n := 0

	for _, m := range w.members {
		signed := false

		for _, s := range signers {
			if s.Address().Equal(m.Address()) {
				signed = true
			}
		}

		if !signed {
			sign(common.Local(95).Privatekey(), m.Address())
			n++
		}
	}

	if n > 0 {
		r.Probe("forged_member_signs")
	}

	return n
}

func prodBuildOps(r *simkit.Run, w *prodWorld) []prodOp {
	var ops []prodOp

	token := func() base.Token { return base.Token(util.UUID().Bytes()) }
	nops := r.Draw("operations", 1, 7)

	for i := 0; i < nops; i++ {
		switch r.Choose(5) {
		case 0, 1: // join
			if len(w.candidates) == 0 {
				continue
			}

			c := w.candidates[r.Choose(len(w.candidates))]
			start := c.start
			startOK := true

			if r.Chance(1, 6) {
				start++
				startOK = false
			}

			op := isaacoperation.NewSuffrageJoin(isaacoperation.NewSuffrageJoinFact(token(), c.node.Address(), start))
			self := true

			key := c.node.Privatekey()
			if r.Chance(1, 8) {
				key = common.Local(90).Privatekey() // signed "by the candidate" with a key that is not the registered one
				self = false
			}

			if err := op.NodeSign(key, common.NetworkID, c.node.Address()); err != nil {
				panic(err)
			}

			signers, distinct := w.memberSigners(r, r.Chance(4, 5))
			for _, s := range signers {
				if err := op.NodeSign(s.Privatekey(), common.NetworkID, s.Address()); err != nil {
					panic(err)
				}
			}

			if r.Chance(1, 5) { // a foreign signer does not count
				f := common.Local(80 + i)
				_ = op.NodeSign(f.Privatekey(), common.NetworkID, f.Address())
			}

			forged := w.forgeMemberSigns(r, signers, func(key base.Privatekey, a base.Address) {
				if err := op.NodeSign(key, common.NetworkID, a); err != nil {
					panic(err)
				}
			})

			ops = append(ops, prodOp{desc: fmt.Sprintf("join %s start-ok=%v self=%v member-signs=%d forged-member-signs=%d", c.node.Address(), startOK, self, distinct, forged),
				op: op, kind: "join", target: c.node.Address(), selfSigned: self, memberSigns: distinct, startOK: startOK})
		case 2: // candidate
			var n base.LocalNode

			switch r.Choose(3) {
			case 0:
				n = common.Local(30 + i) // a new node
			case 1:
				n = w.members[r.Choose(len(w.members))] // already a member
			default:
				if len(w.candidates) > 0 {
					n = w.candidates[r.Choose(len(w.candidates))].node // already a candidate
				} else {
					n = common.Local(30 + i)
				}
			}

			op := isaacoperation.NewSuffrageCandidate(isaacoperation.NewSuffrageCandidateFact(token(), n.Address(), n.Publickey()))
			if err := op.NodeSign(n.Privatekey(), common.NetworkID, n.Address()); err != nil {
				panic(err)
			}

			ops = append(ops, prodOp{desc: fmt.Sprintf("candidate %s", n.Address()), op: op, kind: "candidate", target: n.Address(), selfSigned: true})
		case 3: // disjoin
			mi := r.Choose(len(w.members))
			m := w.members[mi]
			start := w.memberSt[mi].Start()
			startOK := true

			if r.Chance(1, 6) {
				start++
				startOK = false
			}

			target := m.Address()
			signer := m

			if r.Chance(1, 6) && len(w.candidates) > 0 { // a node that is not a member
				c := w.candidates[r.Choose(len(w.candidates))]
				target, signer = c.node.Address(), c.node
			}

			op := isaacoperation.NewSuffrageDisjoin(isaacoperation.NewSuffrageDisjoinFact(token(), target, start))
			if err := op.NodeSign(signer.Privatekey(), common.NetworkID, target); err != nil {
				panic(err)
			}

			ops = append(ops, prodOp{desc: fmt.Sprintf("disjoin %s start-ok=%v", target, startOK), op: op, kind: "disjoin", target: target, selfSigned: true, startOK: startOK})
		default: // network policy
			p := isaac.DefaultNetworkPolicy()
			p.SetMaxOperationsInProposal(uint64(100 + r.Choose(3)))

			op := isaacoperation.NewNetworkPolicy(isaacoperation.NewNetworkPolicyFact(token(), p))

			signers, distinct := w.memberSigners(r, r.Chance(3, 4))
			for _, s := range signers {
				if err := op.NodeSign(s.Privatekey(), common.NetworkID, s.Address()); err != nil {
					panic(err)
				}
			}

			if len(signers) == 0 {
				f := common.Local(85)
				_ = op.NodeSign(f.Privatekey(), common.NetworkID, f.Address())
			}

			_ = w.forgeMemberSigns(r, signers, func(key base.Privatekey, a base.Address) {
				if err := op.NodeSign(key, common.NetworkID, a); err != nil {
					panic(err)
				}
			})

			ops = append(ops, prodOp{desc: fmt.Sprintf("policy max-ops=%d member-signs=%d", p.MaxOperationsInProposal(), distinct), op: op, kind: "policy", memberSigns: distinct})
		}
	}

	return ops
}

// ---- recording FS writer ----

type prodFS struct {
	manifest base.Manifest
	states   map[string]base.State
	opsSeen  int
	saved    int
	savedSeq int64
	r        *simkit.Run
}

func (f *prodFS) SetProposal(context.Context, base.ProposalSignFact) error { return nil }
func (f *prodFS) SetOperation(context.Context, uint64, uint64, base.Operation) error {
	f.opsSeen++

	return nil
}
func (f *prodFS) SetOperationsTree(context.Context, fixedtree.Tree) error { return nil }
func (f *prodFS) SetState(_ context.Context, _, _ uint64, st base.State) error {
	f.states[st.Key()] = st

	return nil
}
func (f *prodFS) SetStatesTree(context.Context, fixedtree.Tree) error { return nil }
func (f *prodFS) SetManifest(_ context.Context, m base.Manifest) error {
	f.manifest = m

	return nil
}
func (f *prodFS) SetINITVoteproof(context.Context, base.INITVoteproof) error     { return nil }
func (f *prodFS) SetACCEPTVoteproof(context.Context, base.ACCEPTVoteproof) error { return nil }
func (f *prodFS) Save(context.Context) (base.BlockMap, error) {
	f.saved++
	f.savedSeq = f.r.Seq()

	return base.NewDummyBlockMap(f.manifest), nil
}
func (f *prodFS) Cancel() error { return nil }

// ---- one processing of the proposal ----

type prodResult struct {
	err          string
	manifest     string
	opsTree      string
	stsTree      string
	suffrage     string
	sufValue     base.SuffrageNodesStateValue
	sufHeightNew base.Height
	hasSuf       bool
	fs           *prodFS
	pp           *isaac.DefaultProposalProcessor
	m            base.Manifest
}

func (w *prodWorld) newProcessorArgs(r *simkit.Run, ops map[string]base.Operation, workersize int64, fs *prodFS, onMerge func()) *isaac.DefaultProposalProcessorArgs {
	encs, enc := common.Encs()

	args := isaac.NewDefaultProposalProcessorArgs()
	args.MaxWorkerSize = workersize
	args.GetStateFunc = w.getState
	args.GetOperationFunc = func(ctx context.Context, oph, _ util.Hash) (base.Operation, error) {
		// a slow remote fetch now and then
		if r.Chance(1, 6) {
			select {
			case <-ctx.Done():
				return nil, ctx.Err()
			case <-time.After(time.Duration(1+r.Choose(30)) * time.Millisecond):
			}
		}

		r.ForceYield("get-operation")

		op, ok := ops[oph.String()]
		if !ok {
			return nil, isaac.ErrOperationNotFoundInProcessor.Errorf("not found")
		}

		return op, nil
	}

	args.NewOperationProcessorFunc = func(height base.Height, ht hint.Hint, getStatef base.GetStateFunc) (base.OperationProcessor, error) {
		switch {
		case ht.Type() == isaacoperation.SuffrageCandidateHint.Type():
			return isaacoperation.NewSuffrageCandidateProcessor(height, getStatef, nil, nil, w.policy.SuffrageCandidateLifespan())
		case ht.Type() == isaacoperation.SuffrageJoinHint.Type():
			return isaacoperation.NewSuffrageJoinProcessor(height, w.threshold, getStatef, nil, nil)
		case ht.Type() == isaac.SuffrageExpelOperationHint.Type():
			return isaacoperation.NewSuffrageExpelProcessor(height, getStatef, nil, nil)
		case ht.Type() == isaacoperation.SuffrageDisjoinHint.Type():
			return isaacoperation.NewSuffrageDisjoinProcessor(height, getStatef, nil, nil)
		case ht.Type() == isaacoperation.NetworkPolicyHint.Type():
			return isaacoperation.NewNetworkPolicyProcessor(height, w.threshold, getStatef, nil, nil)
		}

		return nil, nil
	}

	args.NewWriterFunc = func(proposal base.ProposalSignFact, getStatef base.GetStateFunc) (isaac.BlockWriter, error) {
		mst := leveldbstorage.NewMemStorage()
		r.OnEnd(func() { _ = mst.Close() })

		bw := isaacdatabase.NewLeveldbBlockWrite(proposal.Point().Height(), mst, encs, enc)

		return isaacblock.NewWriter(proposal, getStatef, bw, func(isaac.BlockWriteDatabase) error {
			onMerge()

			return nil
		}, fs, workersize), nil
	}

	return args
}

func (w *prodWorld) process(r *simkit.Run, name string, proposal base.ProposalSignFact, ivp base.INITVoteproof, ops map[string]base.Operation, workersize int64) *prodResult {
	res := &prodResult{fs: &prodFS{states: map[string]base.State{}, r: r}}
	merged := 0
	_ = merged
	args := w.newProcessorArgs(r, ops, workersize, res.fs, func() { merged++ })

	pp, err := isaac.NewDefaultProposalProcessor(proposal, w.prevManifest, args)
	if err != nil {
		panic(err)
	}

	res.pp = pp
	done := false

	r.Go(name, func() {
		m, err := pp.Process(context.Background(), ivp)
		if err != nil {
			res.err = errors.Cause(err).Error()
		} else {
			res.m = m
			res.manifest = m.Hash().String()
			res.opsTree = fmt.Sprint(m.OperationsTree())
			res.stsTree = fmt.Sprint(m.StatesTree())
			res.suffrage = fmt.Sprint(m.Suffrage())
		}

		done = true
	})

	r.Sched(simkit.SchedOpts{MaxSteps: 3000000, Stick: r.DrawStick(), MaxSim: time.Hour, Quanta: []time.Duration{time.Millisecond, 10 * time.Millisecond, 100 * time.Millisecond}})

	if !done {
		r.Fail("liveness", "process", "Process did not return (worker size %d)", workersize)
	}

	// the file-writer jobs of the block writer are only awaited by Save: let them finish
	r.Sched(simkit.SchedOpts{MaxSteps: 100000, KeepGoing: true, MaxSim: 2 * time.Hour, Until: func() bool { return len(r.Parked()) == 0 }})

	if st, ok := res.fs.states[isaac.SuffrageStateKey]; ok {
		if v, err := base.LoadSuffrageNodesStateValue(st); err == nil {
			res.hasSuf = true
			res.sufValue = v
			res.sufHeightNew = v.Height()
		}
	}

	keys := make([]string, 0, len(res.fs.states))
	for k := range res.fs.states {
		keys = append(keys, k)
	}

	r.Event(fmt.Sprintf("%s: worker-size=%d err=%q manifest=%.12s suffrage-state=%v states=%v", name, workersize, res.err, res.manifest, res.hasSuf, sortedCopy(keys)))

	return res
}

func prodProposal(w *prodWorld, ops []prodOp, order []int) (base.ProposalSignFact, map[string]base.Operation) {
	return prodProposalAt(w, ops, order, base.NewPoint(w.height, 0), w.prevManifest.Hash())
}

func prodProposalAt(w *prodWorld, ops []prodOp, order []int, point base.Point, prev util.Hash) (base.ProposalSignFact, map[string]base.Operation) {
	m := map[string]base.Operation{}
	hs := make([][2]util.Hash, len(order))

	for i, k := range order {
		o := ops[k].op
		hs[i] = [2]util.Hash{o.Hash(), o.Fact().Hash()}
		m[o.Hash().String()] = o
	}

	proposer := w.members[0]
	fact := isaac.NewProposalFact(point, proposer.Address(), prev, hs)
	pr := isaac.NewProposalSignFact(fact)

	if err := pr.Sign(proposer.Privatekey(), common.NetworkID); err != nil {
		panic(err)
	}

	return pr, m
}

func prodINITVoteproof(w *prodWorld, pr base.ProposalSignFact, expelIdx int) base.INITVoteproof {
	return prodINITVoteproofAt(w, pr, expelIdx, base.NewPoint(w.height, 0), w.prevManifest.Hash())
}

func prodINITVoteproofAt(w *prodWorld, pr base.ProposalSignFact, expelIdx int, point base.Point, prev util.Hash) base.INITVoteproof {
	c := &common.Cluster{Nodes: w.members, Threshold: w.threshold}

	if expelIdx < 0 {
		fact := isaac.NewINITBallotFact(point, prev, pr.Fact().Hash(), nil)

		return c.MajorityINIT(point, fact)
	}

	var signers []base.LocalNode
	for i, m := range w.members {
		if i != expelIdx {
			signers = append(signers, m)
		}
	}

	expels := []base.SuffrageExpelOperation{c.Expel(w.members[expelIdx].Address(), point.Height()-1, point.Height()+5, signers)}
	fact := isaac.NewINITBallotFact(point, prev, pr.Fact().Hash(), common.ExpelFactHashes(expels))

	var sfs []base.BallotSignFact
	for _, s := range signers {
		sfs = append(sfs, c.SignINIT(s, fact))
	}

	vp := isaac.NewINITExpelVoteproof(point)
	vp.SetSignFacts(sfs).SetMajority(fact).SetThreshold(w.threshold)
	vp.SetExpels(expels)
	vp.Finish()

	return vp
}

func membersOf(v base.SuffrageNodesStateValue) []string {
	var s []string
	for _, n := range v.Nodes() {
		s = append(s, n.Address().String())
	}

	sort.Strings(s)

	return s
}

func describeOps(ops []prodOp, order []int) string {
	var s []string
	for _, k := range order {
		s = append(s, ops[k].desc)
	}

	return strings.Join(s, " | ")
}
