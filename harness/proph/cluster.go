package proph

import (
	"context"
	"fmt"
	"os"
	"runtime"
	"sort"
	"strings"
	"time"

	"github.com/pkg/errors"
	"github.com/rs/zerolog"
	"github.com/spikeekips/mitum/base"
	"github.com/spikeekips/mitum/isaac"
	isaacblock "github.com/spikeekips/mitum/isaac/block"
	isaacdatabase "github.com/spikeekips/mitum/isaac/database"
	isaacoperation "github.com/spikeekips/mitum/isaac/operation"
	isaacstates "github.com/spikeekips/mitum/isaac/states"
	"github.com/spikeekips/mitum/simkit"
	leveldbstorage "github.com/spikeekips/mitum/storage/leveldb"
	"github.com/spikeekips/mitum/util"
	"github.com/spikeekips/mitum/util/fixedtree"
	"github.com/spikeekips/mitum/util/hint"
	"github.com/spikeekips/mitum/util/logging"
	"github.com/spikeekips/mitum/util/valuehash"
	"github.com/spikeekips/mitum/vh/common"
)

// The cluster simulation: n whole nodes in one bubble. Every node runs the
// real States machine with the real booting / joining / consensus / syncing /
// broken / stopped handlers, a real Ballotbox, ballot broadcaster on a real
// TempPool, stuck resolver and SuffrageVoting, real proposal maker / selector,
// real ProposalProcessors with the real DefaultProposalProcessor and block
// writer, and the real Syncer. Stubbed: the transport (ballots, proposals,
// expel operations, block maps and blocks travel over a simulated network with
// loss, delay, duplication, partitions), block files (a recording FS writer;
// the committed chain of a node is a slice), and the import of a block by the
// syncer (copies the block record of a reachable peer).
//
// Faults: partitions and heals, message loss / delay / duplication, crash of a
// node at any kernel step (its tasks are never released again) and restart
// from what it had made durable (committed chain, ballot/proposal pool),
// withdrawal and return of allow-consensus.
//
// The run is an extra population of the checks of several properties; the
// oracle clauses evaluated are chosen by VERIF_FOCUS (a property id), so that a
// violation is always reported by the check of the property it belongs to.

type clBlock struct {
	height   base.Height
	manifest base.Manifest
	bm       base.BlockMap
	ivp      base.INITVoteproof
	avp      base.ACCEPTVoteproof
	proposal util.Hash
	states   map[string]base.State
	suf      base.Suffrage // the suffrage as of this block
	ops      []string      // hashes of the operations of this block
	via      string
	epoch    int
}

type clParams struct {
	interval    time.Duration
	waitINIT    time.Duration
	minWaitNext time.Duration
	stuckWait   time.Duration
	stuckTick   time.Duration
	stuckAfter  time.Duration
	threshold   base.Threshold
}

type clSent struct {
	key   string
	fact  string
	seq   int64
	epoch int
}

type clNode struct {
	i     int
	local base.LocalNode
	cl    *cluster

	// durable
	chain   []*clBlock
	poolSt  *leveldbstorage.Storage
	states  map[string]base.State
	opsDone map[string]bool // operations that are in the node's chain

	// volatile, re-created at every boot
	epoch    int
	alive    bool
	ctx      context.Context
	cancel   func()
	sts      *isaacstates.States
	box      *isaacstates.Ballotbox
	lvps     *isaac.LastVoteproofsHandler
	pool     *isaacdatabase.TempPool
	maker    *isaac.ProposalMaker
	selector *isaac.BaseProposalSelector
	pps      *isaac.ProposalProcessors
	sv       *isaac.SuffrageVoting
	resolver *isaacstates.DefaultBallotStuckResolver
	known    []base.Ballot // the ballots this process has seen, each once
	knownSet map[string]bool

	// history for the oracles (survives restarts: it is what the world saw)
	sent      map[string]clSent // (stage point, sc) -> first locally signed fact that left the node
	proposals map[string]string // (point, previous) -> proposal fact hash made by this node
	lastPos   *clPos
	switched  []isaacstates.StateType
	allowed   bool
	sampled   isaacstates.StateType
	// a SetAllowConsensus call is in flight: "allowed" is changing under the machine's feet
	allowToggling bool
}

type clMajority struct {
	fact   string
	node   int
	expels bool
}

type cluster struct {
	r      *simkit.Run
	focus  string
	n      int
	nodes  []*clNode
	c      *common.Cluster
	p      clParams
	group  []int
	loss   int
	ops    map[string]base.Operation
	policy isaac.NetworkPolicy

	genesis    *clBlock
	majorities map[string]clMajority // stage point -> first majority seen by any node
	expelSeen  bool
	commits    int
	byHeight   map[base.Height]string // first committed manifest hash per height (by any node)
	byHeightBy map[base.Height]int
}

func (cl *cluster) on(prop string) bool { return cl.focus == "" || cl.focus == prop }

// ---- network ----

func (cl *cluster) reach(a, b int) bool {
	return a != b && cl.group[a] == cl.group[b] && cl.nodes[a].alive && cl.nodes[b].alive
}

var clDebug = os.Getenv("VERIF_CLDEBUG") != ""

func (cl *cluster) lost() bool {
	if cl.loss > 0 && cl.r.Chance(1, cl.loss) {
		cl.r.Fault("message_lost")

		return true
	}

	return false
}

func (cl *cluster) delay() time.Duration {
	return time.Duration(1+cl.r.Choose(120)) * time.Millisecond
}

// send runs deliver on the receiving node after a network delay, unless the
// message is lost or the nodes cannot reach each other (evaluated at send and
// at delivery time).
func (cl *cluster) send(kind string, from, to int, deliver func(nd *clNode)) {
	if !cl.reach(from, to) {
		cl.r.Fault("unreachable_" + kind)

		return
	}

	if cl.lost() {
		return
	}

	d := cl.delay()
	target := cl.nodes[to]
	epoch := target.epoch

	if clDebug {
		cl.r.Event(fmt.Sprintf("send %s %d->%d", kind, from, to))
	}

	run := func() {
		cl.r.Sleep(d)

		if !cl.reach(from, to) || target.epoch != epoch {
			return
		}

		deliver(target)
	}

	cl.r.Go(fmt.Sprintf("%s %d->%d", kind, from, to), run)

	if cl.r.Chance(1, 25) {
		cl.r.Fault("message_duplicated")

		d2 := cl.delay() * 4

		cl.r.Go(fmt.Sprintf("%s-dup %d->%d", kind, from, to), func() {
			cl.r.Sleep(d2)

			if !cl.reach(from, to) || target.epoch != epoch {
				return
			}

			deliver(target)
		})
	}
}

func (cl *cluster) broadcastBallot(from *clNode, epoch int, bl base.Ballot) {
	if !from.alive || from.epoch != epoch {
		return // a straggler of a crashed instance: nothing leaves the node
	}

	if bl.SignFact().Node().Equal(from.local.Address()) {
		fact := bl.SignFact().Fact().(base.BallotFact) //nolint:forcetypeassert //...
		key := fmt.Sprintf("%s/sc=%v", bl.Point(), isaac.IsSuffrageConfirmBallotFact(fact))

		cl.r.Checked()

		if o, ok := from.sent[key]; ok && o.fact != fact.Hash().String() {
			if cl.on("C08") {
				sig := "same-process"
				if o.epoch != epoch {
					sig = "across-restart"
				}

				cl.r.Fail("cluster/local-node-equivocated", sig, "node%d broadcast two different locally signed ballot facts for %s: %.12s (seq %d, process #%d) and %.12s (seq %d, process #%d)",
					from.i, key, o.fact, o.seq, o.epoch, fact.Hash().String(), cl.r.Seq(), epoch)
			}
		} else if !ok {
			from.sent[key] = clSent{key: key, fact: fact.Hash().String(), seq: cl.r.Seq(), epoch: epoch}
			cl.r.Event(fmt.Sprintf("node%d broadcasts %s fact %.10s", from.i, key, fact.Hash()))
		}
	}

	from.know(bl)

	for to := 0; to < cl.n; to++ {
		if to == from.i {
			continue
		}

		cl.send("ballot", from.i, to, func(nd *clNode) { nd.deliverBallot(bl) })
	}
}

// deliverBallot is the ingress of a node as launch wires it (memberlist
// notify callback): IsValid, then Ballotbox.Vote.
// know remembers a ballot for the answers to missing-ballot requests; a ballot that arrives again (duplicated, or
// sent again by the broadcast timers, or as such an answer) is not remembered twice.
func (nd *clNode) know(bl base.Ballot) {
	k := bl.HashBytes()
	if nd.knownSet == nil {
		nd.knownSet = map[string]bool{}
	}

	if nd.knownSet[string(k)] {
		return
	}

	nd.knownSet[string(k)] = true
	nd.known = append(nd.known, bl)
}

func (nd *clNode) deliverBallot(bl base.Ballot) {
	if err := bl.IsValid(common.NetworkID); err != nil {
		return
	}

	nd.know(bl)

	box := nd.box

	nd.cl.r.Guard("vote", func() { _, _ = box.Vote(bl) })
}

func (cl *cluster) broadcastExpel(from *clNode, epoch int, op base.SuffrageExpelOperation) {
	if !from.alive || from.epoch != epoch {
		return
	}

	for to := 0; to < cl.n; to++ {
		if to == from.i {
			continue
		}

		cl.send("expel", from.i, to, func(nd *clNode) {
			if err := op.IsValid(common.NetworkID); err != nil {
				return
			}

			h := nd.lastHeight()

			if err := isaac.IsValidExpelWithSuffrageLifespan(h, op, nd.last().suf, cl.policy.SuffrageExpelLifespan()); err != nil {
				return
			}

			sv := nd.sv

			cl.r.Guard("suffrage-vote", func() { _, _ = sv.Vote(op) })
		})
	}
}

func (cl *cluster) requestMissing(from *clNode, point base.StagePoint, nodes []base.Address) {
	for p := 0; p < cl.n; p++ {
		if p == from.i || !cl.reach(from.i, p) {
			continue
		}

		for _, bl := range cl.nodes[p].known {
			if !bl.Point().Equal(point) {
				continue
			}

			for _, a := range nodes {
				if bl.SignFact().Node().Equal(a) {
					bl := bl

					cl.send("missing-ballot", p, from.i, func(nd *clNode) { nd.deliverBallot(bl) })
				}
			}
		}
	}
}

// ---- node: durable state ----

func (nd *clNode) last() *clBlock { return nd.chain[len(nd.chain)-1] }

func (nd *clNode) lastHeight() base.Height { return nd.last().height }

func (nd *clNode) block(h base.Height) *clBlock {
	i := int(h - nd.chain[0].height)
	if i < 0 || i >= len(nd.chain) {
		return nil
	}

	return nd.chain[i]
}

func (nd *clNode) getState(key string) (base.State, bool, error) {
	st, ok := nd.states[key]

	return st, ok, nil
}

func (nd *clNode) getSuffrage(h base.Height) (base.Suffrage, bool, error) {
	b := nd.block(h)
	if b == nil {
		return nil, false, nil
	}

	return b.suf, true, nil
}

func (nd *clNode) nodeInConsensusNodes(node base.Node, h base.Height) (base.Suffrage, bool, error) {
	suf, found, err := nd.getSuffrage(h)

	switch {
	case err != nil:
		return nil, false, err
	case !found:
		return nil, false, nil
	default:
		return suf, suf.ExistsPublickey(node.Address(), node.Publickey()), nil
	}
}

// commit makes a block part of the node's chain (the merge callback of the
// block writer, or the syncer's import).
func (nd *clNode) commit(b *clBlock, epoch int) error {
	cl := nd.cl
	r := cl.r

	if !nd.alive || nd.epoch != epoch {
		return errors.Errorf("verif: the process is gone")
	}

	r.Checked()

	b.epoch = epoch

	if cl.on("C11") {
		switch {
		case b.height <= nd.lastHeight():
			sig := "lower-height"
			if o := nd.block(b.height); o != nil {
				sig = "same-height"
				if o.manifest.Hash().Equal(b.manifest.Hash()) {
					sig = "same-height-same-block"
				}
			}

			r.Fail("cluster/height-not-above-saved", sig+":"+b.via, "node%d stored a block of height %d (%s, manifest %.12s) although its chain already reaches height %d",
				nd.i, b.height, b.via, b.manifest.Hash(), nd.lastHeight())
		case b.height != nd.lastHeight()+1:
			r.Fail("cluster/height-gap", b.via, "node%d stored a block of height %d (%s) on top of height %d", nd.i, b.height, b.via, nd.lastHeight())
		}

		if b.via == "consensus" {
			switch {
			case b.avp == nil || b.avp.Result() != base.VoteResultMajority:
				r.Fail("cluster/saved-without-agreement", "no-accept-majority", "node%d stored the block of height %d without an ACCEPT majority voteproof", nd.i, b.height)
			case !b.avp.BallotMajority().NewBlock().Equal(b.manifest.Hash()):
				r.Fail("cluster/saved-without-agreement", "newblock-mismatch", "node%d stored manifest %.12s for height %d, but the ACCEPT majority it was saved with agreed on %.12s",
					nd.i, b.manifest.Hash(), b.height, b.avp.BallotMajority().NewBlock())
			case !b.avp.BallotMajority().Proposal().Equal(b.proposal):
				r.Fail("cluster/saved-without-agreement", "fact-mismatch", "node%d stored the block of proposal %.12s for height %d, but the ACCEPT majority names proposal %.12s",
					nd.i, b.proposal, b.height, b.avp.BallotMajority().Proposal())
			case b.avp.Point().Height() != b.height:
				r.Fail("cluster/saved-without-agreement", "height-mismatch", "node%d stored height %d with the ACCEPT voteproof of %s", nd.i, b.height, b.avp.Point())
			}
		}

		if prev := nd.block(b.height - 1); prev != nil && !b.manifest.Previous().Equal(prev.manifest.Hash()) {
			r.Fail("cluster/not-on-previous", b.via, "node%d stored height %d whose previous block %.12s is not its block %.12s of height %d",
				nd.i, b.height, b.manifest.Previous(), prev.manifest.Hash(), b.height-1)
		}
	}

	if b.height != nd.lastHeight()+1 {
		return errors.Errorf("verif: block %d does not extend the chain at %d", b.height, nd.lastHeight())
	}

	// cross-node agreement on the chain; a fork that follows from voteproofs
	// with expels is the recorded C03 finding, not judged here
	hs := b.manifest.Hash().String()

	if first, ok := cl.byHeight[b.height]; ok && first != hs {
		if cl.expelSeen {
			r.Probe("fork_after_expel_voteproofs_not_judged")
		} else if cl.on("C11") {
			r.Fail("cluster/different-blocks", b.via, "node%d stored manifest %.12s for height %d, node%d stored %.12s (no expel voteproof in this run)", nd.i, hs, b.height, cl.byHeightBy[b.height], first)
		}
	} else if !ok {
		cl.byHeight[b.height] = hs
		cl.byHeightBy[b.height] = nd.i
	}

	b.suf = nd.last().suf

	if st, ok := b.states[isaac.SuffrageStateKey]; ok {
		suf, err := isaac.NewSuffrageFromState(st)
		if err != nil {
			panic(err)
		}

		b.suf = suf

		r.Probe("suffrage_changed")
		r.Event(fmt.Sprintf("node%d: suffrage of height %d has %d members", nd.i, b.height, suf.Len()))
	}

	nd.chain = append(nd.chain, b)

	for _, h := range b.ops {
		nd.opsDone[h] = true
	}

	if len(b.ops) > 0 {
		r.ProbeN("operations_in_blocks", len(b.ops))
	}

	for k, st := range b.states {
		nd.states[k] = st
	}

	cl.commits++

	r.Probe("block_committed_by_" + b.via)
	r.Event(fmt.Sprintf("node%d commits height %d manifest %.10s via %s", nd.i, b.height, hs, b.via))

	return nil
}

// ---- recording FS writer of one block ----

type clFS struct {
	nd       *clNode
	manifest base.Manifest
	states   map[string]base.State
	ivp      base.INITVoteproof
	avp      base.ACCEPTVoteproof
	proposal base.ProposalSignFact
	saved    int
	ops      []string
}

func (f *clFS) SetProposal(_ context.Context, pr base.ProposalSignFact) error {
	f.proposal = pr

	return nil
}
func (f *clFS) SetOperation(_ context.Context, _, _ uint64, op base.Operation) error {
	f.ops = append(f.ops, op.Hash().String())

	return nil
}
func (f *clFS) SetOperationsTree(context.Context, fixedtree.Tree) error { return nil }
func (f *clFS) SetState(_ context.Context, _, _ uint64, st base.State) error {
	f.states[st.Key()] = st

	return nil
}
func (f *clFS) SetStatesTree(context.Context, fixedtree.Tree) error { return nil }
func (f *clFS) SetManifest(_ context.Context, m base.Manifest) error {
	f.manifest = m

	return nil
}
func (f *clFS) SetINITVoteproof(_ context.Context, vp base.INITVoteproof) error {
	f.ivp = vp

	return nil
}
func (f *clFS) SetACCEPTVoteproof(_ context.Context, vp base.ACCEPTVoteproof) error {
	f.avp = vp

	return nil
}
func (f *clFS) Save(context.Context) (base.BlockMap, error) {
	f.saved++

	return base.NewDummyBlockMap(f.manifest), nil
}
func (f *clFS) Cancel() error { return nil }

type clLogWriter struct {
	r    *simkit.Run
	node int
}

func (w clLogWriter) Write(b []byte) (int, error) {
	s := string(b)
	if len(s) > 700 {
		s = s[:700]
	}

	w.r.Event(fmt.Sprintf("node%d log: %s", w.node, strings.TrimSpace(s)))

	return len(b), nil
}

// ---- boot of a node (first start and every restart) ----

func (cl *cluster) boot(nd *clNode) {
	r := cl.r
	encs, enc := common.Encs()

	nd.epoch++
	epoch := nd.epoch
	nd.alive = true
	nd.known, nd.knownSet = nil, map[string]bool{}
	nd.switched = nil
	nd.allowed = true
	nd.sampled = isaacstates.StateEmpty
	nd.allowToggling = false
	nd.lastPos = nil // the last-voteproofs store is in memory: a new process starts again from the voteproofs of its last block

	ctx, cancel := context.WithCancel(context.Background())
	nd.ctx, nd.cancel = ctx, cancel

	pool, err := isaacdatabase.NewTempPool(nd.poolSt, encs, enc, 0)
	if err != nil {
		panic(err)
	}

	nd.pool = pool

	// launch.PLastVoteproofsHandler: the voteproofs of the last stored block
	nd.lvps = isaac.NewLastVoteproofsHandler()
	lb := nd.last()
	nd.lvps.Set(lb.ivp)
	nd.lvps.Set(lb.avp)

	box := isaacstates.NewBallotbox(nd.local.Address(), func() base.Threshold { return cl.p.threshold }, nd.getSuffrage)
	box.SetCountAfter(cl.p.waitINIT)
	nd.box = box

	nd.sv = isaac.NewSuffrageVoting(nd.local.Address(), pool,
		func(util.Hash) (bool, error) { return false, nil },
		func(op base.SuffrageExpelOperation) error {
			cl.broadcastExpel(nd, epoch, op)

			return nil
		},
	)

	sv := nd.sv

	box.SetSuffrageVoteFunc(func(op base.SuffrageExpelOperation) error {
		_, err := sv.Vote(op)

		return err
	})

	nd.resolver = isaacstates.NewDefaultBallotStuckResolver(
		cl.p.stuckWait+131*time.Microsecond,
		cl.p.stuckTick,
		cl.p.stuckAfter+377*time.Microsecond,
		isaacstates.FindMissingBallotsFromBallotboxFunc(nd.local.Address(), nd.getSuffrage, box),
		func(_ context.Context, point base.StagePoint, nodes []base.Address) error {
			if nd.alive && nd.epoch == epoch {
				cl.requestMissing(nd, point, nodes)
			}

			return nil
		},
		isaacstates.VoteSuffrageVotingFunc(nd.local, common.NetworkID, box, sv, nd.getSuffrage),
	)

	broadcaster := isaacstates.NewDefaultBallotBroadcaster(nd.local.Address(), pool, func(bl base.Ballot) error {
		cl.broadcastBallot(nd, epoch, bl)

		return nil
	})

	args := isaacstates.NewStatesArgs()
	args.AllowConsensus = true
	args.Ballotbox = box
	args.BallotStuckResolver = nd.resolver
	args.LastVoteproofsHandler = nd.lvps
	args.BallotBroadcaster = broadcaster
	args.IsInSyncSourcePoolFunc = func(a base.Address) bool { return nd.last().suf.Exists(a) }
	args.IntervalBroadcastBallot = func() time.Duration { return cl.p.interval }
	args.WhenNewVoteproof = func(vp base.Voteproof) { cl.sawVoteproof(nd, vp) }

	// launch.PStates: the ballotbox starts from the last voteproof
	if vp := nd.lvps.Last().Cap(); vp != nil {
		_ = box.SetLastPointFromVoteproof(vp)
	}

	sts, err := isaacstates.NewStates(common.NetworkID, nd.local, args)
	if err != nil {
		panic(err)
	}

	nd.sts = sts

	lastBlockMap := func() (base.BlockMap, bool, error) { return nd.last().bm, true, nil }

	nd.maker = isaac.NewProposalMaker(nd.local, common.NetworkID,
		func(ctx context.Context, height base.Height) ([][2]util.Hash, error) {
			return pool.OperationHashes(ctx, height, 5, func(meta isaac.PoolOperationRecordMeta) (bool, error) {
				return !nd.opInChain(meta.Operation()), nil
			})
		},
		pool, lastBlockMap)

	selargs := isaac.NewBaseProposalSelectorArgs()
	selargs.Pool = pool
	selargs.Maker = nd.maker
	selargs.RequestProposalInterval = 300 * time.Millisecond
	selargs.MinProposerWait = cl.p.waitINIT / 2
	selargs.TimeoutRequest = func() time.Duration { return time.Second }
	selargs.GetNodesFunc = func(h base.Height) ([]base.Node, bool, error) {
		suf, found, err := nd.getSuffrage(h)
		if err != nil || !found {
			return nil, false, err
		}

		return append([]base.Node(nil), suf.Nodes()...), true, nil
	}
	selargs.ProposerSelectFunc = func(ctx context.Context, point base.Point, nodes []base.Node, prev util.Hash) (base.Node, error) {
		n, err := isaac.NewBlockBasedProposerSelector().Select(ctx, point, nodes, prev)
		if os.Getenv("VERIF_CLDEBUG") != "" && err == nil {
			r.Event(fmt.Sprintf("node%d: proposer of %s among %d nodes (prev %.8s) is %s", nd.i, point, len(nodes), prev, n.Address()))
		}

		return n, err
	}
	selargs.RequestFunc = func(ctx context.Context, point base.Point, proposer base.Node, prev util.Hash) (base.ProposalSignFact, bool, error) {
		return cl.requestProposal(ctx, nd, point, proposer, prev)
	}

	nd.selector = isaac.NewBaseProposalSelector(nd.local, selargs)

	selectf := func(ctx context.Context, point base.Point, prev util.Hash, wait time.Duration) (base.ProposalSignFact, error) {
		pr, err := nd.selector.Select(ctx, point, prev, wait)
		if err == nil && pr != nil {
			r.Event(fmt.Sprintf("node%d selected proposal %.10s of %s for %s", nd.i, pr.Fact().Hash(), pr.ProposalFact().Proposer(), point))

			if o := cl.nodeOf(pr.ProposalFact().Proposer()); o != nil {
				cl.madeProposal(o, o.epoch, pr)
			}
		} else {
			r.Event(fmt.Sprintf("node%d selected no proposal for %s: %v", nd.i, point, err))
		}

		return pr, err
	}

	nd.pps = isaac.NewProposalProcessors(
		func(pr base.ProposalSignFact, previous base.Manifest) (isaac.ProposalProcessor, error) {
			return nd.newProcessor(pr, previous, epoch)
		},
		func(ctx context.Context, _ base.Point, fact util.Hash) (base.ProposalSignFact, error) {
			return cl.fetchProposal(ctx, nd, fact)
		},
	)

	votef := func(bl base.Ballot) (bool, error) { return box.Vote(bl) }
	findf := func(ctx context.Context, h base.Height, suf base.Suffrage) ([]base.SuffrageExpelOperation, error) {
		return sv.Find(ctx, h, suf)
	}
	getManifest := func(h base.Height) (base.Manifest, error) {
		if b := nd.block(h); b != nil {
			return b.manifest, nil
		}

		return nil, nil
	}
	lastManifest := func() (base.Manifest, bool, error) { return nd.last().manifest, true, nil }
	noop := func() error { return nil }
	join := func(context.Context, base.Suffrage) error { return nil }

	sts.SetWhenStateSwitched(func(next isaacstates.StateType) { cl.switched(nd, epoch, next) })

	if lv := os.Getenv("VERIF_CLLOG"); lv != "" { // development aid: mitum's own log lines into the event log
		level := zerolog.ErrorLevel
		if lv == "debug" {
			level = zerolog.DebugLevel
		}

		lg := logging.NewLogging(nil).SetLogger(zerolog.New(clLogWriter{r: r, node: nd.i}).Level(level))
		defer func() { _ = sts.SetLogging(lg) }()
	}

	syncingargs := isaacstates.NewSyncingHandlerArgs()
	syncingargs.WaitStuckInterval = func() time.Duration { return cl.p.interval*2 + cl.p.waitINIT }
	syncingargs.WaitPreparingINITBallot = func() time.Duration { return cl.p.waitINIT }
	syncingargs.NodeInConsensusNodesFunc = nd.nodeInConsensusNodes
	syncingargs.NewSyncerFunc = func(h base.Height) (isaac.Syncer, error) { return cl.newSyncer(nd, epoch, h) }
	syncingargs.WhenReachedTopFunc = func(base.Height) { box.Count() }
	syncingargs.JoinMemberlistFunc = join
	syncingargs.LeaveMemberlistFunc = noop

	brokenargs := isaacstates.NewBrokenHandlerArgs()
	brokenargs.LeaveMemberlistFunc = noop

	consensusargs := isaacstates.NewConsensusHandlerArgs()
	consensusargs.IntervalBroadcastBallot = func() time.Duration { return cl.p.interval }
	consensusargs.WaitPreparingINITBallot = func() time.Duration { return cl.p.waitINIT }
	consensusargs.MinWaitNextBlockINITBallot = func() time.Duration { return cl.p.minWaitNext }
	consensusargs.NodeInConsensusNodesFunc = nd.nodeInConsensusNodes
	consensusargs.ProposalSelectFunc = selectf
	consensusargs.ProposalProcessors = nd.pps
	consensusargs.WhenNewBlockSaved = func(base.BlockMap) { box.Count() }
	consensusargs.VoteFunc = votef
	consensusargs.SuffrageVotingFindFunc = findf
	consensusargs.GetManifestFunc = getManifest

	joiningargs := isaacstates.NewJoiningHandlerArgs()
	joiningargs.NodeInConsensusNodesFunc = nd.nodeInConsensusNodes
	joiningargs.ProposalSelectFunc = selectf
	joiningargs.JoinMemberlistFunc = join
	joiningargs.LeaveMemberlistFunc = noop
	joiningargs.IntervalBroadcastBallot = func() time.Duration { return cl.p.interval }
	joiningargs.WaitFirstVoteproof = func() time.Duration { return cl.p.interval*2 + cl.p.waitINIT }
	joiningargs.WaitPreparingINITBallot = func() time.Duration { return cl.p.waitINIT }
	joiningargs.MinWaitNextBlockINITBallot = func() time.Duration { return cl.p.minWaitNext }
	joiningargs.VoteFunc = votef
	joiningargs.SuffrageVotingFindFunc = findf
	joiningargs.LastManifestFunc = lastManifest

	bootingargs := isaacstates.NewBootingHandlerArgs()
	bootingargs.NodeInConsensusNodesFunc = nd.nodeInConsensusNodes
	bootingargs.LastManifestFunc = lastManifest

	sts.
		SetHandler(isaacstates.StateBroken, isaacstates.NewNewBrokenHandlerType(common.NetworkID, nd.local, brokenargs)).
		SetHandler(isaacstates.StateStopped, isaacstates.NewNewStoppedHandlerType(common.NetworkID, nd.local)).
		SetHandler(isaacstates.StateBooting, isaacstates.NewNewBootingHandlerType(common.NetworkID, nd.local, bootingargs)).
		SetHandler(isaacstates.StateJoining, isaacstates.NewNewJoiningHandlerType(common.NetworkID, nd.local, joiningargs)).
		SetHandler(isaacstates.StateConsensus, isaacstates.NewNewConsensusHandlerType(common.NetworkID, nd.local, consensusargs)).
		SetHandler(isaacstates.StateSyncing, isaacstates.NewNewSyncingHandlerType(common.NetworkID, nd.local, syncingargs))

	r.Go(fmt.Sprintf("node%d-start#%d", nd.i, epoch), func() {
		if err := box.Start(ctx); err != nil {
			panic(err)
		}

		if err := sts.Start(ctx); err != nil {
			r.Event(fmt.Sprintf("node%d states start: %v", nd.i, err))
		}
	})

	r.Event(fmt.Sprintf("node%d boots (process #%d) at height %d", nd.i, epoch, nd.lastHeight()))
}

// crash: the tasks of the instance are never released again (they belong to
// the label of the instance's root task) and nothing it does is seen any more.
func (cl *cluster) crash(nd *clNode) {
	nd.alive = false
	nd.cancel()
	cl.r.Fault("node_crash")
	cl.r.Event(fmt.Sprintf("node%d crashes (process #%d) at height %d", nd.i, nd.epoch, nd.lastHeight()))
}

func (nd *clNode) opInChain(oph util.Hash) bool { return nd.opsDone[oph.String()] }

// ---- proposals ----

func (cl *cluster) nodeOf(a base.Address) *clNode {
	for _, nd := range cl.nodes {
		if nd.local.Address().Equal(a) {
			return nd
		}
	}

	return nil
}

func (cl *cluster) requestProposal(ctx context.Context, from *clNode, point base.Point, proposer base.Node, prev util.Hash) (base.ProposalSignFact, bool, error) {
	cl.r.ForceYield("request-proposal")

	target := cl.nodeOf(proposer.Address())

	if os.Getenv("VERIF_CLDEBUG") != "" {
		cl.r.Event(fmt.Sprintf("node%d requests proposal %s from %s", from.i, point, proposer.Address()))
	}

	if target == nil || !cl.reach(from.i, target.i) || cl.lost() {
		cl.r.Fault("proposer_unreachable")

		select {
		case <-ctx.Done():
			return nil, false, ctx.Err()
		case <-time.After(cl.delay()):
		}

		return nil, false, errors.Errorf("verif: proposer unreachable")
	}

	select {
	case <-ctx.Done():
		return nil, false, ctx.Err()
	case <-time.After(cl.delay()):
	}

	if !target.alive {
		return nil, false, errors.Errorf("verif: proposer gone")
	}

	maker, epoch := target.maker, target.epoch

	pr, err := maker.Make(ctx, point, prev)
	if err != nil {
		if os.Getenv("VERIF_CLDEBUG") != "" {
			cl.r.Event(fmt.Sprintf("node%d: Make(%s) for node%d failed: %+v", target.i, point, from.i, err))
		}

		return nil, false, err
	}

	cl.madeProposal(target, epoch, pr)
	cl.r.Event(fmt.Sprintf("node%d got proposal %.10s for %s from node%d", from.i, pr.Fact().Hash(), point, target.i))

	return pr, true, nil
}

// madeProposal: C38 over the whole run (restarts included): one proposal per (point, previous block) and node.
func (cl *cluster) madeProposal(nd *clNode, epoch int, pr base.ProposalSignFact) {
	if pr == nil || !pr.ProposalFact().Proposer().Equal(nd.local.Address()) {
		return
	}

	key := pr.Point().String() + "/" + pr.ProposalFact().PreviousBlock().String()
	fh := pr.Fact().Hash().String()

	cl.r.Checked()

	if o, ok := nd.proposals[key]; ok && o != fh {
		if cl.on("C38") {
			cl.r.Fail("cluster/two-proposals-for-one-position", "different-proposal", "node%d made two different proposals for %s: %.12s and %.12s (process #%d)", nd.i, key, o, fh, epoch)
		}
	} else if !ok {
		nd.proposals[key] = fh
	}
}

func (cl *cluster) fetchProposal(ctx context.Context, nd *clNode, fact util.Hash) (base.ProposalSignFact, error) {
	cl.r.ForceYield("fetch-proposal")

	if pr, found, err := nd.pool.Proposal(fact); err == nil && found {
		return pr, nil
	}

	for p := 0; p < cl.n; p++ {
		if !cl.reach(nd.i, p) || cl.lost() {
			continue
		}

		select {
		case <-ctx.Done():
			return nil, ctx.Err()
		case <-time.After(cl.delay()):
		}

		o := cl.nodes[p]
		if !o.alive {
			continue
		}

		if pr, found, err := o.pool.Proposal(fact); err == nil && found {
			_, _ = nd.pool.SetProposal(pr)

			return pr, nil
		}
	}

	return nil, errors.Errorf("verif: proposal not found")
}

// ---- block production ----

func (nd *clNode) newProcessor(pr base.ProposalSignFact, previous base.Manifest, epoch int) (isaac.ProposalProcessor, error) {
	cl := nd.cl
	r := cl.r
	encs, enc := common.Encs()

	fs := &clFS{nd: nd, states: map[string]base.State{}}

	args := isaac.NewDefaultProposalProcessorArgs()
	args.MaxWorkerSize = int64(1 + r.Choose(4))
	args.GetStateFunc = nd.getState
	args.GetOperationFunc = func(ctx context.Context, oph, _ util.Hash) (base.Operation, error) {
		r.ForceYield("get-operation")

		if op, found, err := nd.pool.Operation(ctx, oph); err == nil && found {
			return op, nil
		}

		select {
		case <-ctx.Done():
			return nil, ctx.Err()
		case <-time.After(cl.delay()):
		}

		op, ok := cl.ops[oph.String()]
		if !ok {
			return nil, isaac.ErrOperationNotFoundInProcessor.Errorf("not found")
		}

		return op, nil
	}
	args.NewOperationProcessorFunc = func(height base.Height, ht hint.Hint, getStatef base.GetStateFunc) (base.OperationProcessor, error) {
		switch {
		case ht.Type() == isaacoperation.NetworkPolicyHint.Type():
			return isaacoperation.NewNetworkPolicyProcessor(height, cl.p.threshold, getStatef, nil, nil)
		case ht.Type() == isaac.SuffrageExpelOperationHint.Type():
			return isaacoperation.NewSuffrageExpelProcessor(height, getStatef, nil, nil)
		}

		return nil, nil
	}
	args.NewWriterFunc = func(proposal base.ProposalSignFact, getStatef base.GetStateFunc) (isaac.BlockWriter, error) {
		mst := leveldbstorage.NewMemStorage()
		r.OnEnd(func() { _ = mst.Close() })

		bw := isaacdatabase.NewLeveldbBlockWrite(proposal.Point().Height(), mst, encs, enc)

		return isaacblock.NewWriter(proposal, getStatef, bw, func(isaac.BlockWriteDatabase) error {
			return nd.commit(&clBlock{
				height: proposal.Point().Height(), manifest: fs.manifest, bm: base.NewDummyBlockMap(fs.manifest),
				ivp: fs.ivp, avp: fs.avp, proposal: proposal.Fact().Hash(), states: fs.states, via: "consensus", ops: fs.ops,
			}, epoch)
		}, fs, args.MaxWorkerSize), nil
	}

	return isaac.NewDefaultProposalProcessor(pr, previous, args)
}

// ---- syncing: the real Syncer over the simulated network ----

type clTempSyncPool struct{ maps map[base.Height]base.BlockMap }

func (p *clTempSyncPool) BlockMap(h base.Height) (base.BlockMap, bool, error) {
	m, ok := p.maps[h]

	return m, ok, nil
}
func (p *clTempSyncPool) SetBlockMap(m base.BlockMap) error {
	p.maps[m.Manifest().Height()] = m

	return nil
}
func (p *clTempSyncPool) Cancel() error { return nil }
func (p *clTempSyncPool) Close() error  { return nil }

// source picks a reachable peer that has the block of height h.
func (cl *cluster) source(nd *clNode, h base.Height) *clNode {
	var cands []*clNode

	for p := 0; p < cl.n; p++ {
		if cl.reach(nd.i, p) && cl.nodes[p].lastHeight() >= h {
			cands = append(cands, cl.nodes[p])
		}
	}

	if len(cands) == 0 {
		return nil
	}

	return cands[cl.r.Choose(len(cands))]
}

func (cl *cluster) newSyncer(nd *clNode, epoch int, height base.Height) (isaac.Syncer, error) {
	r := cl.r

	wait := func(ctx context.Context) error {
		select {
		case <-ctx.Done():
			return ctx.Err()
		case <-time.After(cl.delay()):
			return nil
		}
	}

	args := isaacstates.NewSyncerArgs()
	args.TempSyncPool = &clTempSyncPool{maps: map[base.Height]base.BlockMap{}}
	args.LastBlockMapInterval = cl.p.interval
	args.LastBlockMapTimeout = time.Second
	args.BatchLimit = int64(1 + r.Choose(4))
	args.LastBlockMapFunc = func(ctx context.Context, manifest util.Hash) (base.BlockMap, bool, error) {
		r.ForceYield("last-blockmap")

		if err := wait(ctx); err != nil {
			return nil, false, err
		}

		var best *clNode

		for p := 0; p < cl.n; p++ {
			if cl.reach(nd.i, p) && !cl.lost() && (best == nil || cl.nodes[p].lastHeight() > best.lastHeight()) {
				best = cl.nodes[p]
			}
		}

		if best == nil {
			return nil, false, errors.Errorf("verif: no sync source reachable")
		}

		m := best.last().bm
		if manifest != nil && m.Manifest().Hash().Equal(manifest) {
			return nil, false, nil
		}

		return m, true, nil
	}
	args.BlockMapFunc = func(ctx context.Context, h base.Height) (base.BlockMap, bool, error) {
		r.ForceYield("blockmap")

		if err := wait(ctx); err != nil {
			return nil, false, err
		}

		src := cl.source(nd, h)
		if src == nil || cl.lost() {
			r.Fault("sync_source_unreachable")

			return nil, false, errors.Errorf("verif: no sync source for height %d", h)
		}

		return src.block(h).bm, true, nil
	}
	args.NewImportBlocksFunc = func(ctx context.Context, from, to base.Height, _ int64, blockMapf func(context.Context, base.Height) (base.BlockMap, bool, error)) error {
		for h := from; h <= to; h++ {
			m, found, err := blockMapf(ctx, h)
			if err != nil || !found {
				return errors.Errorf("verif: block map %d not prepared (%v)", h, err)
			}

			if err := wait(ctx); err != nil {
				return err
			}

			var b *clBlock

			for p := 0; p < cl.n && b == nil; p++ {
				if !cl.reach(nd.i, p) {
					continue
				}

				if o := cl.nodes[p].block(h); o != nil && o.manifest.Hash().Equal(m.Manifest().Hash()) {
					b = o
				}
			}

			if b == nil {
				r.Fault("sync_source_unreachable")

				return errors.Errorf("verif: block %d not reachable", h)
			}

			if h <= nd.lastHeight() {
				continue
			}

			if err := nd.commit(&clBlock{height: h, manifest: b.manifest, bm: b.bm, ivp: b.ivp, avp: b.avp, proposal: b.proposal, states: b.states, ops: b.ops, via: "sync"}, epoch); err != nil {
				return err
			}

			// launch: setLastVoteproofsfFromBlockReader
			_ = nd.lvps.Set(b.ivp)
			_ = nd.lvps.Set(b.avp)
		}

		return nil
	}

	prev := nd.last().bm
	syncer := isaacstates.NewSyncer(prev, args)

	go func() { // launch.newSyncerDeferredFunc
		_ = syncer.Add(height)
	}()

	return syncer, nil
}

// ---- what the oracles watch ----

type clPos struct {
	height   base.Height
	round    base.Round
	stage    base.Stage
	majority bool
	sc       bool
	desc     string
}

func clPosOf(vp base.Voteproof) *clPos {
	p := &clPos{height: vp.Point().Height(), round: vp.Point().Round(), stage: vp.Point().Stage(), majority: vp.Result() == base.VoteResultMajority}

	if vp.Majority() != nil {
		p.sc = isaac.IsSuffrageConfirmBallotFact(vp.Majority())
	}

	p.desc = fmt.Sprintf("%s %s sc=%v", vp.Point(), vp.Result(), p.sc)

	return p
}

func stageOrd(s base.Stage) int {
	if s == base.StageACCEPT {
		return 1
	}

	return 0
}

// clIllegalMove is the statement of C06: no lower height; within a height an
// earlier (round, stage) only for a suffrage-confirm result while the current
// position is not a majority; never the same position again.
func clIllegalMove(l, n *clPos) string {
	switch {
	case n.height < l.height:
		return "lower-height"
	case n.height > l.height:
		return ""
	}

	cmp := 0

	switch {
	case n.round != l.round:
		if n.round < l.round {
			cmp = -1
		} else {
			cmp = 1
		}
	case stageOrd(n.stage) != stageOrd(l.stage):
		if stageOrd(n.stage) < stageOrd(l.stage) {
			cmp = -1
		} else {
			cmp = 1
		}
	}

	switch {
	case cmp > 0:
		return ""
	case cmp < 0:
		if n.sc && !l.majority {
			return ""
		}

		return "earlier-position"
	case n.majority == l.majority && n.sc == l.sc:
		return "same-position"
	default:
		return ""
	}
}

func (cl *cluster) sawVoteproof(nd *clNode, vp base.Voteproof) {
	r := cl.r

	r.Event(fmt.Sprintf("node%d handles voteproof %s %s", nd.i, vp.Point(), vp.Result()))

	if _, ok := vp.(base.HasExpels); ok {
		if !cl.expelSeen {
			r.Probe("expel_voteproof_seen")
		}

		cl.expelSeen = true
	}

	if _, ok := vp.(base.StuckVoteproof); ok {
		r.Probe("stuck_voteproof_seen")
	}

	// C03 over what the honest nodes build and accept: one majority per stage point (every node signs one fact per
	// stage point, C08, so without expels two majorities cannot both be reached; with expels it is the recorded finding)
	if vp.Result() == base.VoteResultMajority && vp.Majority() != nil {
		key := vp.Point().String()
		mh := vp.Majority().Hash().String()

		if o, ok := cl.majorities[key]; ok && o.fact != mh {
			_, hasExpels := vp.(base.HasExpels)

			switch {
			case hasExpels || o.expels || cl.expelSeen:
				r.Probe("conflicting_majorities_with_expels_not_judged")
			case cl.on("C03"):
				r.Fail("cluster/conflicting-majorities", "without-expels", "node%d handled a majority voteproof for %s with majority %.12s; node%d had handled one with majority %.12s (no expels involved)", nd.i, key, mh, o.node, o.fact)
			}
		} else if !ok {
			_, hasExpels := vp.(base.HasExpels)
			cl.majorities[key] = clMajority{fact: mh, node: nd.i, expels: hasExpels}
		}
	}

	if cl.on("C04") {
		r.Checked()

		if err := vp.IsValid(common.NetworkID); err != nil {
			r.Fail("cluster/invalid-voteproof", "is-valid", "node%d handled voteproof %s that fails IsValid: %v", nd.i, vp.Point(), err)
		} else if suf, found, _ := nd.getSuffrage(vp.Point().Height().SafePrev()); !found {
			r.Probe("voteproof_suffrage_unknown_to_node")
		} else if err := isaac.IsValidVoteproofWithSuffrage(vp, suf); err != nil {
			r.Fail("cluster/invalid-voteproof", "with-suffrage", "node%d handled voteproof %s that fails IsValidVoteproofWithSuffrage: %v", nd.i, vp.Point(), err)
		}
	}
}

// position: the C06 clause over the real flow, sampled at quiescence.
func (cl *cluster) watch() {
	cl.watchStates()
	cl.watchPositions()
}

// watchStates samples Current() of every node after every kernel step. The
// current handler only changes under the states lock, whose acquire and
// release are yield points, so no value is skipped - unless the sample itself
// would have blocked on that lock, which is recorded as unknown and not judged.
func (cl *cluster) watchStates() {
	if !cl.on("C09") {
		return
	}

	for _, nd := range cl.nodes {
		if !nd.alive || nd.sts == nil {
			continue
		}

		cur := isaacstates.StateEmpty

		if !cl.r.Try(func() { cur = clCurrent(nd.sts) }) {
			nd.sampled = isaacstates.StateEmpty

			continue
		}

		if prev := nd.sampled; prev != cur {
			cl.r.Checked()

			if prev == isaacstates.StateStopped && cur != isaacstates.StateBooting && cur != isaacstates.StateBroken {
				cl.r.Fail("cluster/left-stopped-wrongly", string(cur), "node%d went from STOPPED to %s", nd.i, cur)
			}

			if (cur == isaacstates.StateJoining || cur == isaacstates.StateConsensus) && prev != isaacstates.StateEmpty {
				allowed := true

				if cl.r.Try(func() { allowed = nd.sts.AllowedConsensus() }) && !allowed && !nd.allowToggling {
					cl.r.Fail("cluster/entered-consensus-while-not-allowed", string(cur)+":sampled", "node%d is in %s (from %s) while consensus is not allowed", nd.i, cur, prev)
				}
			}
		}

		nd.sampled = cur
	}
}

// clCurrent: States.Current() dereferences the current handler, which is nil until Start has run.
func clCurrent(sts *isaacstates.States) (cur isaacstates.StateType) {
	defer func() {
		if e := recover(); e != nil {
			if _, ok := e.(runtime.Error); !ok {
				panic(e)
			}

			cur = isaacstates.StateEmpty
		}
	}()

	return sts.Current()
}

func (cl *cluster) watchPositions() {
	if !cl.on("C06") {
		return
	}

	for _, nd := range cl.nodes {
		if !nd.alive || nd.lvps == nil {
			continue
		}

		vp := nd.lvps.Last().Cap()
		if vp == nil {
			continue
		}

		n := clPosOf(vp)

		cl.r.Checked()

		if l := nd.lastPos; l != nil && l.desc != n.desc {
			if why := clIllegalMove(l, n); why != "" && why != "same-position" {
				cl.r.Fail("cluster/illegal-move", why, "node%d: the last voteproofs moved from [%s] to [%s]", nd.i, l.desc, n.desc)
			}
		}

		nd.lastPos = n
	}
}

func (cl *cluster) switched(nd *clNode, epoch int, next isaacstates.StateType) {
	r := cl.r

	if nd.epoch != epoch {
		return
	}

	nd.switched = append(nd.switched, next)
	r.Event(fmt.Sprintf("node%d switched to %s", nd.i, next))
	r.Probe("state_" + string(next))

	if !cl.on("C09") {
		return
	}

	r.Checked()

	if cur := nd.sts.Current(); cur != next {
		r.Fail("cluster/reported-switch-differs", string(next), "node%d: the switched callback reports %s but Current() is %s", nd.i, next, cur)
	}

	if (next == isaacstates.StateJoining || next == isaacstates.StateConsensus) && !nd.sts.AllowedConsensus() {
		r.Fail("cluster/entered-consensus-while-not-allowed", string(next), "node%d entered %s while consensus is not allowed", nd.i, next)
	}
}

// ---- the run ----

func clusterRun(r *simkit.Run) {
	// the ballotbox recycles records through a sync.Pool
	runtime.GC()
	runtime.GC()

	cl := &cluster{r: r, focus: os.Getenv("VERIF_FOCUS"), ops: map[string]base.Operation{}, byHeight: map[base.Height]string{}, byHeightBy: map[base.Height]int{}, majorities: map[string]clMajority{}}

	cl.n = []int{1, 2, 3, 3, 4, 4}[r.Draw("nodes", 0, 5)]
	th := []base.Threshold{67, 67, 100, 60}[r.Draw("threshold", 0, 3)]
	cl.c = common.NewCluster(0, cl.n, th)
	cl.policy = isaac.DefaultNetworkPolicy()

	speed := r.Draw("timing", 0, 2)
	cl.p = []clParams{
		{interval: 300 * time.Millisecond, waitINIT: 500 * time.Millisecond, minWaitNext: 200 * time.Millisecond, stuckWait: 3 * time.Second, stuckTick: 500 * time.Millisecond, stuckAfter: 4 * time.Second},
		{interval: time.Second, waitINIT: 2 * time.Second, minWaitNext: 700 * time.Millisecond, stuckWait: 8 * time.Second, stuckTick: time.Second, stuckAfter: 10 * time.Second},
		{interval: 3 * time.Second, waitINIT: 5 * time.Second, minWaitNext: 2 * time.Second, stuckWait: 33 * time.Second, stuckTick: time.Second, stuckAfter: 66 * time.Second},
	}[speed]
	cl.p.threshold = th

	r.OnSUTPanic(func(site, value, stack string) {
		r.Fail("cluster/panic", "component", "a component goroutine panicked at %s: %s\n%s", site, value, stack)
	})

	// genesis: height 0, known to everybody
	gm := base.NewDummyManifest(0, valuehash.RandomSHA256())
	gpoint := base.RawPoint(0, 0)
	gproposal := valuehash.RandomSHA256()
	givp := cl.c.MajorityINIT(gpoint, isaac.NewINITBallotFact(gpoint, valuehash.RandomSHA256(), gproposal, nil))
	gavp := cl.c.MajorityACCEPT(gpoint, gproposal, gm.Hash())
	cl.genesis = &clBlock{height: 0, manifest: gm, bm: base.NewDummyBlockMap(gm), ivp: givp, avp: gavp, proposal: gproposal, via: "genesis", suf: cl.c.Suf}
	cl.byHeight[0] = gm.Hash().String()

	policyState := base.NewBaseState(0, isaac.NetworkPolicyStateKey, isaac.NewNetworkPolicyStateValue(cl.policy), valuehash.RandomSHA256(), []util.Hash{valuehash.RandomSHA256()})

	sufSt := make([]base.SuffrageNodeStateValue, cl.n)
	for i, m := range cl.c.Nodes {
		sufSt[i] = isaac.NewSuffrageNodeStateValue(isaac.NewNode(m.Publickey(), m.Address()), 0)
	}

	sufState := base.NewBaseState(0, isaac.SuffrageStateKey, isaac.NewSuffrageNodesStateValue(0, sufSt), valuehash.RandomSHA256(), []util.Hash{valuehash.RandomSHA256()})

	cl.group = make([]int, cl.n)
	cl.nodes = make([]*clNode, cl.n)

	for i := range cl.nodes {
		mst := leveldbstorage.NewMemStorage()
		r.OnEnd(func() { _ = mst.Close() })

		cl.nodes[i] = &clNode{
			i: i, local: cl.c.Nodes[i], cl: cl, chain: []*clBlock{cl.genesis}, poolSt: mst,
			states: map[string]base.State{isaac.NetworkPolicyStateKey: policyState, isaac.SuffrageStateKey: sufState},
			sent:   map[string]clSent{}, proposals: map[string]string{}, opsDone: map[string]bool{},
		}
	}

	r.OnEnd(func() {
		for _, nd := range cl.nodes {
			if nd.cancel != nil {
				nd.cancel()
			}
		}
	})

	if r.Chance(1, 3) {
		cl.loss = 5 + r.Choose(20)
	}

	faulty := r.Flag("faults")

	for _, nd := range cl.nodes {
		cl.boot(nd)
	}

	// a client submits network-policy operations (signed by enough members) to the pools of some nodes; the other
	// nodes fetch an operation they do not hold when they process the proposal that lists it
	if r.Flag("client_operations") {
		r.Go("client", func() {
			for i := 0; ; i++ {
				time.Sleep(cl.p.waitINIT + time.Duration(r.Choose(2000))*time.Millisecond)
				r.ForceYield("client")

				p := isaac.DefaultNetworkPolicy()
				p.SetMaxOperationsInProposal(uint64(100 + i%50))

				op := isaacoperation.NewNetworkPolicy(isaacoperation.NewNetworkPolicyFact(base.Token(util.UUID().Bytes()), p))

				for _, s := range cl.c.Nodes {
					if err := op.NodeSign(s.Privatekey(), common.NetworkID, s.Address()); err != nil {
						panic(err)
					}
				}

				cl.ops[op.Hash().String()] = op

				for _, nd := range cl.nodes {
					if nd.alive && r.Chance(1, 2) {
						pool := nd.pool

						r.Guard("set-operation", func() { _, _ = pool.SetOperation(context.Background(), op) })
					}
				}

				r.Probe("client_operation_submitted")
			}
		})
	}

	quanta := []time.Duration{time.Millisecond, 10 * time.Millisecond, 33 * time.Millisecond, 100 * time.Millisecond, 300 * time.Millisecond, time.Second}
	phases := r.Draw("phases", 2, 5)
	phaseLen := []time.Duration{4, 12, 30}[speed] * time.Second
	stick := r.DrawStick()
	// simulated time passes while tasks are parked only in some runs, and then rarely (a loaded machine)
	clockDen := []int{0, 0, 3000, 300}[r.Draw("load", 0, 3)]
	// a quarter of the runs schedule by priorities (PCT) instead of the random walk
	pct := []int{0, 0, 0, 3}[r.Draw("pct", 0, 3)]

	heightsAtHeal := base.NilHeight
	healedAt := time.Duration(0)

	for ph := 0; ph < phases; ph++ {
		last := ph == phases-1

		if faulty && !last {
			switch r.Choose(5) {
			case 0: // partition
				ng := 2 + r.Choose(2)
				for i := range cl.group {
					cl.group[i] = r.Choose(ng)
				}

				r.Fault("partition")
				r.Event(fmt.Sprintf("partition %v", cl.group))
			case 1: // crash one node
				nd := cl.nodes[r.Choose(cl.n)]
				if nd.alive {
					cl.crash(nd)
				}
			case 2: // restart the crashed ones
				for _, nd := range cl.nodes {
					if !nd.alive {
						r.Fault("node_restart")
						cl.boot(nd)
					}
				}
			case 3: // withdraw / return allow-consensus on one node
				nd := cl.nodes[r.Choose(cl.n)]
				if nd.alive {
					nd.allowed = !nd.allowed
					sts, allow := nd.sts, nd.allowed

					r.Fault("allow_consensus_toggled")
					nd.allowToggling = true

					r.Go(fmt.Sprintf("node%d-allow=%v", nd.i, allow), func() {
						_ = sts.SetAllowConsensus(allow)
						nd.allowToggling = false
					})
				}
			default:
			}
		}

		if last {
			// faults stop: heal, restart everybody, allow consensus everywhere
			for i := range cl.group {
				cl.group[i] = 0
			}

			cl.loss = 0

			for _, nd := range cl.nodes {
				if !nd.alive {
					cl.boot(nd)
				} else if !nd.allowed {
					nd.allowed = true
					sts := nd.sts

					nd.allowToggling = true

					r.Go(fmt.Sprintf("node%d-allow", nd.i), func() {
						_ = sts.SetAllowConsensus(true)
						nd.allowToggling = false
					})
				}
			}

			healedAt = r.Now()
			heightsAtHeal = cl.maxHeight()
			r.Event("faults stop")
		}

		end := r.Now() + phaseLen
		if last {
			end = r.Now() + phaseLen*3
		}

		r.Sched(simkit.SchedOpts{MaxSteps: 4000000, KeepGoing: true, Stick: stick, ClockDen: clockDen, PCT: pct, MaxSim: end, Quanta: quanta, Invariant: cl.watch})

		if r.Truncated {
			break
		}
	}

	// ---- end of run ----
	var hs []string

	minH, maxH := cl.nodes[0].lastHeight(), cl.nodes[0].lastHeight()

	for _, nd := range cl.nodes {
		h := nd.lastHeight()
		if h < minH {
			minH = h
		}

		if h > maxH {
			maxH = h
		}

		st := "-"
		if nd.alive {
			// the root goroutine must not wait for a lock a parked task holds: the state is "?" then
			sts := nd.sts
			st = "?"

			r.Try(func() { st = string(clCurrent(sts)) })
		}

		hs = append(hs, fmt.Sprintf("node%d:h%d:%s", nd.i, h, st))
	}

	sort.Strings(hs)

	r.ProbeN("blocks_committed", cl.commits)

	if maxH > heightsAtHeal {
		r.Probe("progress_after_faults_stopped")
	} else if !r.Truncated {
		r.Probe("no_progress_after_faults_stopped")
	}

	if minH == maxH {
		r.Probe("all_nodes_at_same_height")
	}

	_ = healedAt

	r.Op("nodes=%d threshold=%v timing=%d faults=%v phases=%d blocks=%d end: %s", cl.n, th, speed, faulty, phases, cl.commits, strings.Join(hs, " "))
}

func (cl *cluster) maxHeight() base.Height {
	h := base.NilHeight
	for _, nd := range cl.nodes {
		if nd.lastHeight() > h {
			h = nd.lastHeight()
		}
	}

	return h
}

func init() {
	simkit.Register(&simkit.Harness{
		ID:          "CL",
		Run:         clusterRun,
		Real:        []string{"isaacstates.States with the real booting/joining/consensus/syncing/broken/stopped handlers (voteproofHandler, baseBallotHandler)", "isaacstates.Ballotbox, DefaultBallotBroadcaster, DefaultBallotStuckResolver, ballotBroadcastTimers", "isaac.SuffrageVoting, LastVoteproofsHandler", "isaac.ProposalMaker, BaseProposalSelector, BlockBasedProposerSelector", "isaac.ProposalProcessors, DefaultProposalProcessor, isaacblock.Writer, LeveldbBlockWrite", "isaacstates.Syncer", "isaacdatabase.TempPool on goleveldb (memory storage)"},
		Stub:        []string{"transport between the nodes (simulated network: loss, delay, duplication, partitions)", "block files: a recording FS writer; the committed chain of a node is a slice that survives crashes", "block import of the syncer copies the block record of a reachable peer", "memberlist join/leave are no-ops; handover is absent"},
		Rule:        "each run draws 1-4 whole nodes, a threshold, one of three timing profiles, and 2-5 phases; in fault runs each phase but the last starts with a partition, the crash of a node (its tasks are never released again), the restart of crashed nodes from their durable state (chain, ballot/proposal pool), or a toggle of allow-consensus; the last phase heals everything. Clauses by focus property: C08 one locally signed ballot fact per (stage point, suffrage-confirm flag) and node across restarts; C06 the last-voteproofs position of every node moves only as the statement allows; C09 STOPPED is left only for BOOTING/BROKEN, the switched callback agrees with Current(), JOINING/CONSENSUS are not entered while consensus is not allowed; C11 a block enters a node's chain once per height, on its predecessor, from consensus only with the ACCEPT majority for exactly that manifest and proposal, and (in runs without expel voteproofs) all nodes store the same manifest per height; C04 every voteproof handled passes the validation other nodes apply; C38 one proposal per (point, previous block) and node; C03 (in runs without expel voteproofs) one majority per stage point over all voteproofs the nodes handle. distinct = event-log hash",
		Assumptions: []string{"a fork that follows voteproofs with expels is the recorded C03 finding and is counted (probe fork_after_expel_voteproofs_not_judged), not judged by the C11 clause"},
	})
}
