package proph

import (
	"fmt"
	"strings"

	"github.com/spikeekips/mitum/base"
	"github.com/spikeekips/mitum/simkit"
)

func prodRun(r *simkit.Run, c17 bool) {
	w := prodBuildWorld(r)
	ops := prodBuildOps(r, w)

	if len(ops) == 0 {
		r.Checked()

		return
	}

	order := make([]int, len(ops))
	for i := range order {
		order[i] = i
	}

	expelIdx := -1
	if len(w.members) >= 3 && r.Chance(1, 4) {
		expelIdx = 1 + r.Choose(len(w.members)-1)
		r.Probe("expel_voteproof")
	}

	pr, opmap := prodProposal(w, ops, order)
	ivp := prodINITVoteproof(w, pr, expelIdx)

	repeats := 3
	if r.Tier == "thorough" {
		repeats = 6
	}

	sizes := []int64{1, 2, 3, 8, 64}

	var first *prodResult

	firstSize := int64(0)

	for i := 0; i < repeats; i++ {
		ws := sizes[r.Choose(len(sizes))]
		res := w.process(r, fmt.Sprintf("process%d", i), pr, ivp, opmap, ws)
		r.Checked()

		if first == nil {
			first, firstSize = res, ws
			r.Op("members=%d candidates=%d threshold=%v expel=%d ops: %s -> err=%q manifest=%.12s suffrage-changed=%v",
				len(w.members), len(w.candidates), w.threshold, expelIdx, describeOps(ops, order), res.err, res.manifest, res.hasSuf)

			continue
		}

		// C10: same proposal, same operations, same prior state => same manifest, whatever the schedule and worker size
		if res.err != first.err || res.manifest != first.manifest || res.opsTree != first.opsTree || res.stsTree != first.stsTree || res.suffrage != first.suffrage {
			var diff []string

			for _, x := range [][3]string{{"error", first.err, res.err}, {"manifest", first.manifest, res.manifest}, {"operations-tree", first.opsTree, res.opsTree}, {"states-tree", first.stsTree, res.stsTree}, {"suffrage", first.suffrage, res.suffrage}} {
				if x[1] != x[2] {
					diff = append(diff, x[0])
				}
			}

			if !c17 {
				r.Fail("manifest-differs-between-runs", strings.Join(diff, "+"), "the same proposal over the same state gave different results with worker size %d and %d: %s differ (first: err=%q manifest=%.12s; now: err=%q manifest=%.12s); ops: %s",
					firstSize, ws, strings.Join(diff, ", "), first.err, first.manifest, res.err, res.manifest, describeOps(ops, order))
			}
		}
	}

	if !c17 {
		return
	}

	// ---- C17 ----
	judge := func(res *prodResult, ord []int, what string) []string {
		old := map[string]bool{}
		for _, m := range w.members {
			old[m.Address().String()] = true
		}

		if !res.hasSuf {
			// no suffrage state in this block: membership unchanged
			var s []string
			for k := range old {
				s = append(s, k)
			}

			return sortedCopy(s)
		}

		r.Checked()

		mem := membersOf(res.sufValue)

		for i := 1; i < len(mem); i++ {
			if mem[i] == mem[i-1] {
				r.Fail("duplicate-member", "duplicate", "%s: the new suffrage lists %s twice", what, mem[i])
			}
		}

		if res.sufHeightNew != w.sufHeight+1 {
			r.Fail("suffrage-height", "not-plus-one", "%s: suffrage height went from %d to %d", what, w.sufHeight, res.sufHeightNew)
		}

		now := map[string]bool{}
		for _, a := range mem {
			now[a] = true
		}

		for _, k := range ord {
			if o := ops[k]; o.kind == "join" && !now[o.target.String()] {
				r.Probe("join_rejected")
			}
		}

		for a := range now {
			if old[a] {
				continue
			}

			r.Probe("member_joined")

			// a new member: an unexpired candidate with a join signed by itself and by at least the threshold of distinct current members
			ok := false

			for _, c := range w.candidates {
				if c.node.Address().String() != a || c.deadline < w.height {
					continue
				}

				for _, k := range ord {
					o := ops[k]
					if o.kind == "join" && o.target.String() == a && o.selfSigned && o.startOK && o.memberSigns >= w.required() {
						ok = true
					}
				}
			}

			if !ok {
				r.Fail("unqualified-join", "joined-without-qualifying-operation", "%s: %s joined the suffrage without being an unexpired candidate with a join signed by itself and by %d distinct members; ops: %s", what, a, w.required(), describeOps(ops, ord))
			}
		}

		for a := range old {
			if now[a] {
				continue
			}

			ok := expelIdx >= 0 && w.members[expelIdx].Address().String() == a
			if ok {
				r.Probe("member_expelled")
			} else {
				r.Probe("member_left")
			}

			for _, k := range ord {
				o := ops[k]
				if o.kind == "disjoin" && o.target.String() == a && o.startOK {
					ok = true
				}
			}

			if !ok {
				r.Fail("unqualified-removal", "removed-without-disjoin-or-expel", "%s: member %s left the suffrage without a disjoin of its own or an expel; ops: %s", what, a, describeOps(ops, ord))
			}
		}

		return mem
	}

	baseMembers := judge(first, order, "proposal order")

	// the same operations in other orders
	for p := 0; p < 2; p++ {
		perm := append([]int(nil), order...)
		for k := len(perm) - 1; k > 0; k-- {
			j := r.Choose(k + 1)
			perm[k], perm[j] = perm[j], perm[k]
		}

		pr2, opmap2 := prodProposal(w, ops, perm)
		ivp2 := prodINITVoteproof(w, pr2, expelIdx)
		res := w.process(r, fmt.Sprintf("permuted%d", p), pr2, ivp2, opmap2, sizes[r.Choose(len(sizes))])

		mem := judge(res, perm, "permuted order")
		if strings.Join(mem, ",") != strings.Join(baseMembers, ",") || (res.err == "") != (first.err == "") {
			r.Fail("result-depends-on-order", "membership", "the same operations in another order give another suffrage: %v vs %v (errors %q / %q); order A: %s; order B: %s",
				baseMembers, mem, first.err, res.err, describeOps(ops, order), describeOps(ops, perm))
		}
	}
}

func sortedCopy(s []string) []string {
	c := append([]string(nil), s...)

	for i := 1; i < len(c); i++ {
		for j := i; j > 0 && c[j-1] > c[j]; j-- {
			c[j-1], c[j] = c[j], c[j-1]
		}
	}

	return c
}

var _ = base.NilHeight

func init() {
	real := []string{"isaac.DefaultProposalProcessor", "isaacblock.Writer", "isaacblock.DefaultStatesMerger", "isaacoperation processors and state value mergers (join, candidate, disjoin, expel, network policy)", "isaacdatabase.LeveldbBlockWrite on memory storage", "util.BaseJobWorker", "util/fixedtree writer", "secp256k1 signatures"}
	stub := []string{"block file writer (records states, manifest)", "operation source (map with latency)", "database merge (counter)"}

	simkit.Register(&simkit.Harness{
		ID:   "C10",
		Run:  func(r *simkit.Run) { prodRun(r, false) },
		Real: real, Stub: stub,
		Rule:        "each run draws a prior state (1-5 members, 0-4 candidates some expired, policy), 1-7 operations (joins with right/wrong start, own/foreign key, enough/too few member signatures, candidates of new nodes/members/candidates, disjoins, network policy changes incl. two in one block), optionally an expel voteproof; the same proposal is processed 3 times (thorough 6) under different schedules of the parallel Process/Merge/SetStates/CloseStates jobs and worker sizes 1..64. Manifest hash, operations-tree root, states-tree root and suffrage hash must be identical (and all runs fail or none). distinct = event-log hash",
		Assumptions: []string{"operations are valid at the operation level (IsValid) as the pool would require; semantic validity is what the processors decide"},
	})

	simkit.Register(&simkit.Harness{
		ID:   "C17",
		Run:  func(r *simkit.Run) { prodRun(r, true) },
		Real: real, Stub: stub,
		Rule:        "the C10 workload; additionally the same operations are proposed in two other orders. For every resulting suffrage state: members unique, suffrage height exactly +1, every new member is an unexpired candidate with a join signed by its registered key and by at least the threshold of distinct current members, every removed member is a current member with its own disjoin or an expel, and the membership is identical across schedules and across operation orders. distinct = event-log hash",
		Assumptions: []string{"the required number of member signatures comes from Threshold.Threshold"},
	})
}
