// Package proph holds the proposal-group harnesses (proposal maker, proposer selection, proposal processors).
package proph

import (
	"context"
	"fmt"
	"time"

	"github.com/spikeekips/mitum/base"
	"github.com/spikeekips/mitum/isaac"
	isaacdatabase "github.com/spikeekips/mitum/isaac/database"
	"github.com/spikeekips/mitum/simkit"
	leveldbstorage "github.com/spikeekips/mitum/storage/leveldb"
	"github.com/spikeekips/mitum/util"
	"github.com/spikeekips/mitum/util/valuehash"
	"github.com/spikeekips/mitum/vh/common"
)

func c38Run(r *simkit.Run) {
	encs, enc := common.Encs()
	st := leveldbstorage.NewMemStorage()

	r.OnEnd(func() { _ = st.Close() })

	pool, err := isaacdatabase.NewTempPool(st, encs, enc, 0)
	if err != nil {
		panic(err)
	}

	local := common.Local(0)
	lastHeight := base.Height(33 + r.Choose(2))
	lastHash := valuehash.RandomSHA256()
	otherPrev := valuehash.RandomSHA256()

	lastBlockMap := func() (base.BlockMap, bool, error) {
		return base.NewDummyBlockMap(base.NewDummyManifest(lastHeight, lastHash)), true, nil
	}

	opLimit := uint64(1 + r.Choose(5))

	newMaker := func() *isaac.ProposalMaker {
		return isaac.NewProposalMaker(local, common.NetworkID,
			func(ctx context.Context, h base.Height) ([][2]util.Hash, error) {
				return pool.OperationHashes(ctx, h, opLimit, nil)
			}, pool, lastBlockMap)
	}

	maker := newMaker()

	ctx, cancel := context.WithCancel(context.Background())
	r.OnEnd(cancel)

	useCleanup := r.Flag("pool_cleanup_daemon")
	if useCleanup {
		if err := pool.Start(ctx); err != nil {
			panic(err)
		}
	}

	// operations with shared facts (re-signed duplicates)
	nfacts := 1 + r.Choose(4)
	facts := make([]isaac.DummyOperationFact, nfacts)

	for i := range facts {
		facts[i] = isaac.NewDummyOperationFact(util.UUID().Bytes(), valuehash.RandomSHA256())
	}

	nops := r.Draw("operations", 0, 8)
	ops := make([]isaac.DummyOperation, nops)

	for i := range ops {
		op, err := isaac.NewDummyOperation(facts[r.Choose(nfacts)], common.Local(10+i).Privatekey(), common.NetworkID)
		if err != nil {
			panic(err)
		}

		ops[i] = op
	}

	type ask struct {
		kind  int // 0 Make, 1 PreferEmpty, 2 add operation, 3 advance last block, 4 sleep (cleanup), 5 restart maker
		point base.Point
		prev  util.Hash
		op    int
		sleep time.Duration
	}

	nclients := r.Draw("clients", 1, 4)
	plans := make([][]ask, nclients)

	for c := range plans {
		for k := r.Draw("asks", 1, 8); k > 0; k-- {
			a := ask{kind: []int{0, 0, 0, 1, 2, 2, 3, 4, 5}[r.Choose(9)]}
			a.point = base.NewPoint(lastHeight-1+base.Height(r.Choose(5)), base.Round(r.Choose(2)))

			a.prev = lastHash
			if r.Chance(1, 3) {
				a.prev = otherPrev
			}

			if nops > 0 {
				a.op = r.Choose(nops)
			} else if a.kind == 2 {
				a.kind = 0
			}

			if a.kind == 5 && nclients > 1 {
				a.kind = 0 // a node has one maker at a time: restarts only in single-client runs
			}

			a.sleep = []time.Duration{time.Millisecond, time.Second, 40 * time.Minute, 70 * time.Minute}[r.Choose(4)]
			plans[c] = append(plans[c], a)
		}
	}

	type answer struct {
		hash  util.Hash
		fact  string
		bytes string
		seq   int64
		who   string
	}

	answers := map[string][]answer{}

	judge := func(who string, point base.Point, prev util.Hash, pr base.ProposalSignFact) {
		r.Checked()

		key := point.String() + "/" + prev.String()
		// "the same signed proposal": the same fact under the same signatures (the in-memory object and its
		// decoded copy from the pool may print time stamps differently; that is the codec's business, C27)
		sigs := ""
		for _, sg := range pr.Signs() {
			sigs += sg.Signer().String() + ":" + sg.Signature().String() + ";"
		}

		a := answer{hash: pr.Fact().Hash(), fact: pr.Fact().Hash().String(), bytes: sigs, seq: r.Seq(), who: who}

		for _, o := range answers[key] {
			if o.fact != a.fact || o.bytes != a.bytes {
				sig := "different-proposal"

				// is the first answer still in the pool?
				if _, found, _ := pool.Proposal(o.hash); !found {
					sig = "different-proposal:after-pool-cleanup-removed-the-first"
				}

				r.Fail("two-proposals-for-one-position", sig, "for point %s and previous block %.12s the node first returned proposal %.12s (to %s) and later %.12s (to %s)", point, prev, o.fact, o.who, a.fact, a.who)
			}
		}

		answers[key] = append(answers[key], a)

		seenOp := map[string]bool{}
		seenFact := map[string]bool{}

		for _, x := range pr.ProposalFact().Operations() {
			if seenOp[x[0].String()] {
				r.Fail("duplicate-in-proposal", "operation", "proposal for %s lists operation %.12s twice", point, x[0])
			}

			if seenFact[x[1].String()] {
				r.Fail("duplicate-in-proposal", "fact", "proposal for %s lists two operations of fact %.12s", point, x[1])
			}

			seenOp[x[0].String()] = true
			seenFact[x[1].String()] = true
		}

		if !pr.ProposalFact().Proposer().Equal(local.Address()) || !pr.ProposalFact().Point().Equal(point) {
			r.Fail("wrong-proposal", "position", "asked for %s, got a proposal for %s by %s", point, pr.ProposalFact().Point(), pr.ProposalFact().Proposer())
		}
	}

	for c := range plans {
		c := c
		who := fmt.Sprintf("c%d", c)

		r.Go(who, func() {
			for _, a := range plans[c] {
				switch a.kind {
				case 0:
					pr, err := maker.Make(ctx, a.point, a.prev)
					r.Event(fmt.Sprintf("%s Make %s -> err=%v", who, a.point, err != nil))

					if err == nil {
						judge(who, a.point, a.prev, pr)
					}
				case 1:
					pr, err := maker.PreferEmpty(ctx, a.point, a.prev)
					r.Event(fmt.Sprintf("%s PreferEmpty %s -> err=%v", who, a.point, err != nil))

					if err == nil {
						judge(who, a.point, a.prev, pr)
					}
				case 2:
					time.Sleep(time.Microsecond)
					_, _ = pool.SetOperation(ctx, ops[a.op])
					r.Event(fmt.Sprintf("%s add op%d", who, a.op))
				case 3:
					lastHeight++
					lastHash = valuehash.RandomSHA256()
					r.Event(fmt.Sprintf("%s last block now %d", who, lastHeight))
				case 4:
					time.Sleep(a.sleep)

					if useCleanup && a.sleep > 30*time.Minute {
						r.Fault("pool_cleanup_tick")
					}
				case 5:
					maker = newMaker()
					r.Event(who + " restarts the maker")
					r.Fault("maker_restart")
				}
			}
		})
	}

	r.Sched(simkit.SchedOpts{MaxSteps: 3000000, Stick: r.DrawStick(), MaxSim: 24 * time.Hour,
		Quanta: []time.Duration{time.Millisecond, time.Second, 10 * time.Minute, 35 * time.Minute}})

	if r.Unfinished() {
		r.Fail("liveness", "maker", "clients did not finish")
	}

	if useCleanup {
		stopped := false
		r.Go("stop-pool", func() { _ = pool.Stop(); stopped = true })
		r.Sched(simkit.SchedOpts{MaxSteps: 200000, KeepGoing: true, Until: func() bool { return stopped }, MaxSim: 48 * time.Hour})
	}

	r.Op("clients=%d positions asked=%d last height=%d cleanup=%v", nclients, len(answers), lastHeight, useCleanup)
}

func mustJSON(enc interface {
	Marshal(interface{}) ([]byte, error)
}, v interface{}) []byte {
	b, err := enc.Marshal(v)
	if err != nil {
		panic(err)
	}

	return b
}

func init() {
	simkit.Register(&simkit.Harness{
		ID:          "C38",
		Run:         c38Run,
		Real:        []string{"isaac.ProposalMaker (Make, PreferEmpty)", "isaacdatabase.TempPool (ProposalByPoint, SetProposal, OperationHashes, clean-up daemon)", "goleveldb on memory storage"},
		Stub:        []string{"last block map (harness variable that advances)", "operations are isaac.DummyOperation"},
		Rule:        "each run draws 1-4 concurrent clients x 1-8 steps: Make / PreferEmpty for points around the last height (2 rounds, 2 previous blocks), adding operations (re-signed duplicates of 1-4 facts), advancing the last block, sleeping up to 70 minutes so that the pool's 33-minute clean-up runs on the fake clock, and re-creating the maker on the same pool. Every returned proposal for one (point, previous block) must have the same fact and the same bytes, and list distinct operations and facts. distinct = event-log hash",
		Assumptions: []string{"getOperations is wired to TempPool.OperationHashes with no filter, as launch wires it apart from its state filter"},
	})
}
