package proph

import (
	"context"
	"fmt"
	"sort"
	"strings"
	"time"

	"github.com/pkg/errors"
	"github.com/spikeekips/mitum/base"
	"github.com/spikeekips/mitum/isaac"
	isaacdatabase "github.com/spikeekips/mitum/isaac/database"
	"github.com/spikeekips/mitum/simkit"
	leveldbstorage "github.com/spikeekips/mitum/storage/leveldb"
	"github.com/spikeekips/mitum/util"
	"github.com/spikeekips/mitum/util/valuehash"
	"github.com/spikeekips/mitum/vh/common"
)

type c07Node struct {
	i     int
	local base.LocalNode
	pool  *isaacdatabase.TempPool
	maker *isaac.ProposalMaker
	sel   *isaac.BaseProposalSelector
	down  bool
	slow  time.Duration
	fresh bool // a Select call has begun and has not selected a proposer yet
}

type c07Choice struct {
	first   bool // the first proposer selection of a Select call (before any node has been filtered out)
	dup     bool // the candidate list named a node twice
	foreign bool // the candidate list named a non-member
	node    int
	point   base.Point
	prev    string
	cands   string
	chosen  string
	member  bool
}

func c07Run(r *simkit.Run) {
	encs, enc := common.Encs()
	nsuf := r.Draw("suffrage", 1, 12)
	if r.Tier == "thorough" && r.Chance(1, 4) {
		nsuf = 13 + r.Choose(52)
	}

	nlive := r.Draw("live_nodes", 1, 4)
	if nlive > nsuf {
		nlive = nsuf
	}

	members := common.Nodes(common.Locals(0, nsuf))
	lastHash := valuehash.RandomSHA256()
	lastHeight := base.Height(33)

	var choices []c07Choice

	nodes := make([]*c07Node, nlive)

	for i := range nodes {
		i := i
		n := &c07Node{i: i, local: common.Local(i)}
		st := leveldbstorage.NewMemStorage()

		r.OnEnd(func() { _ = st.Close() })

		pool, err := isaacdatabase.NewTempPool(st, encs, enc, 0)
		if err != nil {
			panic(err)
		}

		n.pool = pool
		n.maker = isaac.NewProposalMaker(n.local, common.NetworkID, nil, pool, func() (base.BlockMap, bool, error) {
			return base.NewDummyBlockMap(base.NewDummyManifest(lastHeight, lastHash)), true, nil
		})

		if i > 0 && r.Chance(1, 4) {
			n.down = true
		}

		if r.Chance(1, 4) {
			n.slow = []time.Duration{500 * time.Millisecond, 3 * time.Second, 20 * time.Second}[r.Choose(3)]
		}

		nodes[i] = n
	}

	// every node lists the suffrage in its own order
	perms := make([][]base.Node, nlive)
	for i := range perms {
		p := append([]base.Node(nil), members...)
		for k := len(p) - 1; k > 0; k-- {
			j := r.Choose(k + 1)
			p[k], p[j] = p[j], p[k]
		}

		perms[i] = p
	}

	inner := isaac.NewBlockBasedProposerSelector()
	errDown := errors.New("node unreachable")

	for _, n := range nodes {
		n := n
		args := isaac.NewBaseProposalSelectorArgs()
		args.Pool = n.pool
		args.Maker = n.maker
		args.RequestProposalInterval = 300 * time.Millisecond
		args.MinProposerWait = 2 * time.Second
		args.TimeoutRequest = func() time.Duration { return time.Second }
		args.GetNodesFunc = func(base.Height) ([]base.Node, bool, error) {
			return append([]base.Node(nil), perms[n.i]...), true, nil
		}
		args.ProposerSelectFunc = func(ctx context.Context, point base.Point, cands []base.Node, prev util.Hash) (base.Node, error) {
			chosen, err := inner.Select(ctx, point, cands, prev)
			if err != nil {
				return nil, err
			}

			var names []string

			member := false
			seen := map[string]bool{}
			dup, foreign := false, false

			for _, c := range cands {
				a := c.Address().String()
				names = append(names, a)

				if seen[a] {
					dup = true
				}

				seen[a] = true

				isMember := false
				for _, m := range members {
					if m.Address().Equal(c.Address()) {
						isMember = true
					}
				}

				if !isMember {
					foreign = true
				}

				if c.Address().Equal(chosen.Address()) {
					member = true
				}
			}

			sort.Strings(names)

			first := n.fresh
			n.fresh = false
			choices = append(choices, c07Choice{first: first, dup: dup, foreign: foreign, node: n.i, point: point, prev: prev.String(), cands: strings.Join(names, ","), chosen: chosen.Address().String(), member: member})

			return chosen, nil
		}
		args.RequestFunc = func(ctx context.Context, point base.Point, proposer base.Node, prev util.Hash) (base.ProposalSignFact, bool, error) {
			r.ForceYield("request-proposal")

			var target *c07Node

			for _, o := range nodes {
				if o.local.Address().Equal(proposer.Address()) {
					target = o
				}
			}

			if target == nil || target.down {
				r.Fault("proposer_unreachable")

				return nil, false, errDown
			}

			if target.slow > 0 {
				r.Fault("proposer_slow")

				select {
				case <-ctx.Done():
					return nil, false, ctx.Err()
				case <-time.After(target.slow):
				}
			}

			pr, err := target.maker.Make(ctx, point, prev)
			if err != nil {
				return nil, false, err
			}

			return pr, true, nil
		}

		n.sel = isaac.NewBaseProposalSelector(n.local, args)
	}

	npoints := r.Draw("points", 1, 3)
	points := make([]base.Point, npoints)

	for i := range points {
		points[i] = base.NewPoint(lastHeight+1, base.Round(i))
	}

	done := 0

	for _, n := range nodes {
		n := n
		if n.down {
			done++

			continue
		}

		r.Go(fmt.Sprintf("node%d", n.i), func() {
			for _, pt := range points {
				// concurrent Select calls on one node too
				n.fresh = true
				pr, err := n.sel.Select(context.Background(), pt, lastHash, time.Second)
				r.Event(fmt.Sprintf("node%d select %s -> err=%v", n.i, pt, err != nil))

				if err == nil && pr != nil {
					r.Probe("proposal_selected")
				}
			}

			done++
		})
	}

	r.Sched(simkit.SchedOpts{MaxSteps: 3000000, Stick: r.DrawStick(), MaxSim: 3 * time.Hour,
		Quanta: []time.Duration{time.Millisecond, 33 * time.Millisecond, 300 * time.Millisecond, time.Second, 3 * time.Second}})

	if r.Unfinished() {
		r.Fail("liveness", "selector", "Select did not return on every node (%d of %d done)", done, nlive)
	}

	// same (point, previous block, candidate set) => same proposer, a member of that set
	byKey := map[string]c07Choice{}

	var mnames []string
	for _, m := range members {
		mnames = append(mnames, m.Address().String())
	}

	sort.Strings(mnames)
	allMembers := strings.Join(mnames, ",")

	for _, c := range choices {
		r.Checked()

		if !c.member {
			r.Fail("proposer-not-a-member", "not-member", "node%d chose %s for %s, who is not among the candidates [%s]", c.node, c.chosen, c.point, c.cands)
		}

		// the candidates are the suffrage of the height, less the nodes found dead in this Select call: never a
		// node twice, never a non-member, and all of the suffrage when the call selects its first proposer
		if c.dup || c.foreign {
			r.Fail("candidates-not-the-suffrage", "duplicate-or-foreign", "node%d selected the proposer of %s among [%s], which is not a set of suffrage members", c.node, c.point, c.cands)
		}

		if c.first && c.cands != allMembers {
			r.Fail("candidates-not-the-suffrage", "first-selection-not-over-the-suffrage", "node%d began selecting for %s among [%s]; the suffrage is [%s]", c.node, c.point, c.cands, allMembers)
		}

		key := c.point.String() + "/" + c.prev + "/" + c.cands

		if o, ok := byKey[key]; ok && o.chosen != c.chosen {
			r.Fail("different-proposer", "same-candidates", "for %s over the same candidate set node%d chose %s and node%d chose %s", c.point, o.node, o.chosen, c.node, c.chosen)
		}

		byKey[key] = c
	}

	r.Op("suffrage=%d live=%d points=%d selections=%d", nsuf, nlive, npoints, len(choices))
}

func init() {
	simkit.Register(&simkit.Harness{
		ID:          "C07",
		Run:         c07Run,
		Real:        []string{"isaac.BaseProposalSelector (Select, getNodes sort, filterDeadNodes, proposalFromOthers)", "isaac.BlockBasedProposerSelector", "isaac.ProposalMaker", "isaacdatabase.TempPool"},
		Stub:        []string{"transport between nodes: RequestFunc calls the proposer's maker directly, or fails / is slow", "members without a process are unreachable"},
		Rule:        "each run draws a suffrage of 1-12 members (thorough up to 64) presented to each of 1-4 live nodes in its own permutation, 1-3 points, and proposers that are unreachable or slower than the request timeout (driving the dead-node filtering and the fall-back to other proposers on the fake clock); every call of the proposer-selection function is recorded. For equal (point, previous block, candidate set) every node must choose the same proposer, always a member of the candidate set. distinct = event-log hash",
		Assumptions: []string{"the suffrage slice is handed to each node as its own copy"},
	})
}
