package consh

import (
	"sort"
	"strings"

	"github.com/spikeekips/mitum/base"
	"github.com/spikeekips/mitum/isaac"
	isaacstates "github.com/spikeekips/mitum/isaac/states"
	"github.com/spikeekips/mitum/simkit"
)

// c05Oracle watches the ballotbox's record map and recycle pool through the verif-tagged accessor.
type c05Oracle struct {
	r        *simkit.Run
	s        *bbState
	restore  func()
	inPool   map[uintptr]bool
	lifePuts map[uintptr]int             // puts during the current life of the record
	livedAs  map[uintptr]base.StagePoint // stage point of the current life
	livedSC  map[uintptr]bool
	lastL    isaac.LastPoint
	sameL    int
	cleans   int
	prevSeq  int64 // event seq at the start of the previous harness clean-up
}

func newC05Oracle(r *simkit.Run, s *bbState) *c05Oracle {
	o := &c05Oracle{r: r, s: s, inPool: map[uintptr]bool{}, lifePuts: map[uintptr]int{}, livedAs: map[uintptr]base.StagePoint{}, livedSC: map[uintptr]bool{}}

	o.restore = isaacstates.VerifHookPoolPut(func(ptr uintptr) {
		r.Probe("pool_put")

		if o.inPool[ptr] {
			sig := "normal-record"
			if o.livedSC[ptr] {
				sig = "suffrage-confirm-record"
				r.Probe("clean_with_sc_record")
			}

			r.Fail("released-twice", sig, "a record (last lived as %s, suffrage-confirm=%v) was put into the recycle pool a second time without having been taken out", o.livedAs[ptr], o.livedSC[ptr])
		}

		o.inPool[ptr] = true
		o.lifePuts[ptr]++
	})

	return o
}

// panicked: the ballotbox panicked; when the stack shows a record whose functions were cleared by the pool put, a released record was consulted.
func (o *c05Oracle) panicked(site, value, stack string) {
	sig := "other"

	switch {
	case strings.Contains(stack, "voterecords).getSuffrage"):
		sig = "nil-suffrage-func-of-recycled-record:getSuffrage"
	case strings.Contains(stack, "voteproofFromBallots"):
		sig = "nil-suffrage-func-of-recycled-record:voteproofFromBallots"
	case strings.Contains(stack, "isValidVoteproof"):
		sig = "nil-func-of-recycled-record:isValidVoteproof"
	}

	o.r.Fail("released-record-consulted-panic", sig, "the ballotbox panicked at %s: %s\n%s", site, value, stack)
}

func keyOf(p base.StagePoint, sc bool) string {
	if sc {
		return "sf-" + p.String()
	}

	return p.String()
}

// check runs at quiescence after every kernel step.
func (o *c05Oracle) check() {
	recs := o.s.box.VerifRecords()
	byPtr := map[uintptr]string{}

	o.r.Checked()

	for _, rec := range recs {
		if k, dup := byPtr[rec.Ptr]; dup {
			o.r.Fail("aliased-record", "two-keys", "keys %q and %q refer to the same record", k, rec.Key)
		}

		byPtr[rec.Ptr] = rec.Key

		if o.inPool[rec.Ptr] {
			if rec.Point.IsZero() {
				sig := "normal-record"
				if strings.HasPrefix(rec.Key, "sf-") {
					sig = "suffrage-confirm-record"
					o.r.Probe("clean_with_sc_record")
				}

				o.r.Fail("released-record-still-consulted", sig, "the record under key %q has been put into the recycle pool but is still reachable from the record map", rec.Key)

				continue
			}

			// taken out of the pool again for a new stage point: a new life
			o.inPool[rec.Ptr] = false
			o.lifePuts[rec.Ptr] = 0
		}

		if !rec.Point.IsZero() {
			o.livedAs[rec.Ptr] = rec.Point
			o.livedSC[rec.Ptr] = rec.IsSC

			if rec.Key != keyOf(rec.Point, rec.IsSC) {
				o.r.Fail("record-under-wrong-key", "key-mismatch", "record for %s (suffrage-confirm=%v) is stored under key %q", rec.Point, rec.IsSC, rec.Key)
			}
		}
	}
}

// harnessClean is a clean-up cycle at a point of the harness's choosing (control task).
func (o *c05Oracle) harnessClean() {
	box := o.s.box
	startSeq := o.r.Seq()
	L := box.LastPoint()

	// what is below the last point before this cycle
	below := map[uintptr]base.StagePoint{}
	belowSC := map[uintptr]bool{}

	for _, rec := range box.VerifRecords() {
		if !rec.Point.IsZero() && !L.IsZero() && rec.Point.Compare(L.StagePoint) < 0 {
			below[rec.Ptr] = rec.Point
			belowSC[rec.Ptr] = rec.IsSC
		}
	}

	before := map[string]base.StagePoint{}
	beforeSC := map[string]bool{}

	for _, rec := range box.VerifRecords() {
		if !rec.Point.IsZero() {
			before[rec.Key] = rec.Point
			beforeSC[rec.Key] = rec.IsSC
		}
	}

	box.VerifClean()
	o.cleans++
	o.r.Probe("harness_clean")

	// black box: a stage point whose record this clean-up took out of the record map is not answered for any more,
	// whatever way the box has of reaching a record (the normal record of the point; suffrage-confirm records are
	// not what Voted/MissingNodes look at)
	after := map[string]bool{}
	for _, rec := range box.VerifRecords() {
		after[rec.Key] = true
	}

	addrs := make([]base.Address, len(o.s.w.c.Nodes))
	for i, n := range o.s.w.c.Nodes {
		addrs[i] = n.Address()
	}

	bkeys := make([]string, 0, len(before))
	for key := range before {
		bkeys = append(bkeys, key)
	}

	sort.Strings(bkeys) // the queries below yield and log: their order must not be the map's

	for _, key := range bkeys {
		p := before[key]

		if after[key] || beforeSC[key] {
			continue
		}

		// a Vote call that passed the old-ballot test before the last point moved makes a new record for the point
		// when it goes on; what the box answers then is that record, not the released one
		if o.s.votedSince(key, startSeq) {
			o.r.Probe("unlinked_point_has_vote_in_flight")
			o.r.Event("clean: a vote for " + key + " was under way, its answers are not judged")

			continue
		}

		sfs := box.Voted(p, addrs)
		_, found, err := box.MissingNodes(p)

		if o.s.votedSince(key, startSeq) {
			o.r.Probe("unlinked_point_has_vote_in_flight")
			o.r.Event("clean: a vote for " + key + " was under way, its answers are not judged")

			continue
		}

		o.r.Checked()
		o.r.Probe("unlinked_point_queried")

		if len(sfs) > 0 {
			o.r.Fail("released-record-still-consulted", "voted-answers-for-unlinked-point", "the record of %s was taken out of the record map by the clean-up, but Voted(%s) still returns %d sign facts", p, p, len(sfs))
		}

		if err == nil && found {
			o.r.Fail("released-record-still-consulted", "missing-nodes-answers-for-unlinked-point", "the record of %s was taken out of the record map by the clean-up, but MissingNodes(%s) still finds it", p, p)
		}
	}

	if L.IsZero() || !(L.StagePoint.Equal(o.lastL.StagePoint) && L.IsMajority() == o.lastL.IsMajority()) {
		o.lastL = L
		o.sameL = 1
		o.prevSeq = startSeq

		return
	}

	prevSeq := o.prevSeq
	o.prevSeq = startSeq

	o.sameL++
	if o.sameL < 2 {
		return
	}

	// (e) after two consecutive clean-ups with an unchanged last point every
	// record below it is gone from the map and has been put into the pool exactly once
	if box.LastPoint().StagePoint.Equal(L.StagePoint) {
		for _, rec := range box.VerifRecords() {
			p := rec.Point
			if p.IsZero() {
				p = o.livedAs[rec.Ptr]
			}

			if !p.IsZero() && p.Compare(L.StagePoint) < 0 {
				// a record made by a Vote call that was under way while these clean-ups ran (it passed the old-ballot
				// test before the last point moved) is released by a later clean-up
				if o.s.votedSince(rec.Key, prevSeq) {
					o.r.Probe("record_below_last_point_made_by_vote_in_flight")
					o.r.Event("clean: the record " + rec.Key + " below the last point was made by a vote under way during the clean-ups")

					continue
				}

				sig := "normal-record"
				if strings.HasPrefix(rec.Key, "sf-") {
					sig = "suffrage-confirm-record"
					o.r.Probe("clean_with_sc_record")
				}

				o.r.Fail("finished-record-not-released", sig, "after two clean-up cycles at last point %s the record map still holds key %q (stage point %s)", L.StagePoint, rec.Key, p)
			}
		}

		o.r.Checked()
	}
}

// final: isolation of Voted / MissingNodes per stage point.
func (o *c05Oracle) final() {
	s := o.s
	addrs := make([]base.Address, len(s.w.c.Nodes))

	for i, n := range s.w.c.Nodes {
		addrs[i] = n.Address()
	}

	seen := map[string]bool{}

	for _, d := range s.w.deliver {
		pk := d.point.String()
		if seen[pk] {
			continue
		}

		seen[pk] = true

		for _, sf := range s.box.Voted(d.point, addrs) {
			fact := sf.Fact().(base.BallotFact) //nolint:forcetypeassert //...
			o.r.Checked()

			if !fact.Point().Equal(d.point) || !s.deliveredS[pk][bbSFKey(sf)] {
				o.r.Fail("cross-point-influence", "voted", "Voted(%s) returns a sign fact of %s for %s that was not delivered for that point", pk, sf.Node(), fact.Point())
			}
		}

		// MissingNodes(P) may only name suffrage members (it must not be fed by another point's records)
		missing, found, err := s.box.MissingNodes(d.point)
		if err != nil || !found {
			continue
		}

		for _, m := range missing {
			if !s.w.sufAt(d.point.Height()).Exists(m) {
				o.r.Fail("cross-point-influence", "missing-nodes", "MissingNodes(%s) lists %s who is not in the suffrage", pk, m)
			}
		}
	}
}

func init() {
	simkit.Register(&simkit.Harness{
		ID:          "C05",
		Run:         func(r *simkit.Run) { bbRun(r, true) },
		Real:        []string{"isaacstates.Ballotbox.clean / newVoterecords / voterecordsPoolPut / Voted / MissingNodes", "voterecords"},
		Stub:        []string{"suffrage lookup", "verif-tagged accessor (scratch copy only) listing the record map, the removed list, and wrapping the pool-put function"},
		Rule:        "the C04 workload (normal and suffrage-confirm votes across heights and rounds, voteproof advances, SetLastPoint) plus clean-up cycles invoked by the harness at points of its choosing in addition to the box's own. After every kernel step: no record is put into the pool twice within one life, no record that sits in the pool is reachable from the record map, no two keys alias one record, every record is stored under the key of its own stage point; after two consecutive clean-ups at an unchanged last point nothing below it remains; at the end Voted/MissingNodes of a point depend only on ballots delivered for it. distinct = event-log hash",
		Assumptions: []string{"'no longer consulted' is judged as 'not reachable from the record map', the only way Traverse, Voted, MissingNodes and counting reach a record"},
	})
}
