package consh

import (
	"context"
	"fmt"
	"os"
	"runtime"
	"sort"
	"strings"
	"time"

	"github.com/pkg/errors"
	"github.com/spikeekips/mitum/base"
	"github.com/spikeekips/mitum/isaac"
	isaacstates "github.com/spikeekips/mitum/isaac/states"
	"github.com/spikeekips/mitum/simkit"
	"github.com/spikeekips/mitum/util"
	"github.com/spikeekips/mitum/util/valuehash"
	"github.com/spikeekips/mitum/vh/common"
)

// one ballot handed to the ballotbox
type bbDelivery struct {
	node   int
	bl     base.Ballot
	point  base.StagePoint
	sc     bool
	sfKey  string
	factH  string
	desc   string
	voted  bool // Vote returned true
	called bool

	hostile bool // the ballot carries a voteproof the box has to refuse: an error from Vote is a legitimate answer
}

type bbWorld struct {
	r       *simkit.Run
	c       *common.Cluster
	n       int
	B32     util.Hash
	p32     util.Hash
	avp32   isaac.ACCEPTVoteproof
	deliver []*bbDelivery
	expels  []base.SuffrageExpelOperation

	// the suffrage of height 34 has one more member than the suffrage of the heights before (nil: no change)
	newcomer base.LocalNode
	suf34    base.Suffrage
}

// sufAt is the suffrage of a height: voteproofs and ballots are judged by the suffrage of their own height
func (w *bbWorld) sufAt(h base.Height) base.Suffrage {
	if w.suf34 != nil && h >= 34 {
		return w.suf34
	}

	return w.c.Suf
}

func bbSFKey(sf base.BallotSignFact) string { return string(sf.HashBytes()) }

// bbBuild generates the ballots of a run: for a few consecutive stage points
// every node gets one or two ballots (honest or conflicting facts), with the
// embedded voteproofs the validity rules ask for.
func bbBuild(r *simkit.Run) *bbWorld {
	n := r.Draw("suffrage", 1, 5)
	th := []base.Threshold{67, 75, 100}[r.Draw("threshold", 0, 2)]
	w := &bbWorld{r: r, n: n, c: common.NewCluster(0, n, th)}
	c := w.c

	w.p32, w.B32 = valuehash.RandomSHA256(), valuehash.RandomSHA256()
	w.avp32 = c.MajorityACCEPT(base.RawPoint(32, 0), w.p32, w.B32)

	H := base.Height(33)
	p0 := base.NewPoint(H, 0)
	p1 := base.NewPoint(H, 1)
	pn := base.NewPoint(H+1, 0)

	// candidate facts
	pa, pb := valuehash.RandomSHA256(), valuehash.RandomSHA256()
	Ba, Bb := valuehash.RandomSHA256(), valuehash.RandomSHA256()

	initFacts := []base.INITBallotFact{isaac.NewINITBallotFact(p0, w.B32, pa, nil), isaac.NewINITBallotFact(p0, w.B32, pb, nil)}
	ivp33 := c.MajorityINIT(p0, initFacts[0])
	acceptFacts := []base.ACCEPTBallotFact{isaac.NewACCEPTBallotFact(p0, pa, Ba, nil), isaac.NewACCEPTBallotFact(p0, pa, Bb, nil)}

	var drawI isaac.INITVoteproof

	var drawA isaac.ACCEPTVoteproof

	if n >= 2 {
		drawI = c.DrawINIT(p0, w.B32)
		drawA = c.DrawACCEPT(p0, pa)
	}

	init1Facts := []base.INITBallotFact{isaac.NewINITBallotFact(p1, w.B32, valuehash.RandomSHA256(), nil), isaac.NewINITBallotFact(p1, w.B32, valuehash.RandomSHA256(), nil)}
	avp33 := c.MajorityACCEPT(p0, pa, Ba)
	nextFacts := []base.INITBallotFact{isaac.NewINITBallotFact(pn, Ba, valuehash.RandomSHA256(), nil), isaac.NewINITBallotFact(pn, Ba, valuehash.RandomSHA256(), nil)}

	// expels of one remote node (never the local node 0), when the suffrage is big enough; with four or more nodes
	// sometimes a second, different expel set (a partition: each side expels a node of the other side), and the
	// expelled nodes vote themselves (plain facts, or the expel set that does not name them)
	type expelSet struct {
		expelled int
		expels   []base.SuffrageExpelOperation
		fact     base.INITBallotFact
	}

	var (
		expels     []base.SuffrageExpelOperation
		expelFacts []util.Hash
		expelInit  base.INITBallotFact
		ievp       isaac.INITExpelVoteproof
		scFact     isaac.SuffrageConfirmBallotFact
		expelled   = -1
		sets       []expelSet
	)

	mkExpelSet := func(x int, proposal util.Hash) expelSet {
		var signers []base.LocalNode

		for i, nd := range c.Nodes {
			if i != x {
				signers = append(signers, nd)
			}
		}

		ops := []base.SuffrageExpelOperation{c.Expel(c.Nodes[x].Address(), H-1, H+5, signers)}

		return expelSet{expelled: x, expels: ops, fact: isaac.NewINITBallotFact(p0, w.B32, proposal, common.ExpelFactHashes(ops))}
	}

	expelMode := 0 // 0 none, 1 one set, 2 two sets, 3 two sets voted in the partition pattern
	if n >= 3 {
		expelMode = r.Draw("expel_mode", 0, 3)
		if n < 4 && expelMode > 1 {
			expelMode = 1
		}
	}

	if expelMode > 0 {
		expelled = 1 + r.Choose(n-1)

		first := mkExpelSet(expelled, pa)
		sets = append(sets, first)
		expels, expelInit = first.expels, first.fact
		expelFacts = common.ExpelFactHashes(expels)

		if expelMode >= 2 {
			y := 1 + r.Choose(n-2)
			if y >= expelled {
				y++
			}

			sets = append(sets, mkExpelSet(y, []util.Hash{pa, pb}[r.Choose(2)]))
		}

		var sfs []base.BallotSignFact
		for i, nd := range c.Nodes {
			if i != expelled {
				sfs = append(sfs, c.SignINIT(nd, expelInit))
			}
		}

		ievp = isaac.NewINITExpelVoteproof(p0)
		ievp.SetSignFacts(sfs).SetMajority(expelInit).SetThreshold(th)
		ievp.SetExpels(expels)
		ievp.Finish()

		scFact = isaac.NewSuffrageConfirmBallotFact(p0, w.B32, pa, expelFacts)
		w.expels = expels
	}

	add := func(node int, bl base.Ballot, desc string) {
		fact := bl.SignFact().Fact().(base.BallotFact) //nolint:forcetypeassert //...
		w.deliver = append(w.deliver, &bbDelivery{
			node: node, bl: bl, point: bl.Point(), sc: isaac.IsSuffrageConfirmBallotFact(fact),
			sfKey: bbSFKey(bl.SignFact()), factH: fact.Hash().String(), desc: desc,
		})
	}

	partitioned := expelMode == 3

	stages := r.Draw("stage_points", 1, 4)
	conflictDen := []int{0, 2, 4}[r.Draw("conflict_density", 0, 2)]

	pick := func() int {
		if conflictDen > 0 && r.Chance(1, conflictDen) {
			return 1
		}

		return 0
	}

	for i, nd := range c.Nodes {
		// stage 1: INIT (33,0)
		if stages >= 1 {
			times := 1
			if r.Chance(1, 5) {
				times = 2 // a node that sends two different ballots for one stage point
			}

			for t := 0; t < times; t++ {
				// the expel sets this node may vote for: those that do not name it
				var usable []expelSet

				for _, es := range sets {
					if es.expelled != i {
						usable = append(usable, es)
					}
				}

				switch {
				case partitioned && t == 0 && r.Chance(7, 8):
					// the partition pattern: everybody but the node expelled by the first set votes the first set's fact,
					// that node (alive on the other side) votes the second set's fact
					es := sets[0]
					if i == sets[0].expelled {
						es = sets[1]
					}

					r.Probe("ballots_of_partition_pattern")
					add(i, common.INITBallot(w.avp32, c.SignINIT(nd, es.fact), es.expels), fmt.Sprintf("node%d INIT h33r0 with expel of node%d", i, es.expelled))
				case len(usable) > 0 && r.Chance(1, 2):
					es := usable[r.Choose(len(usable))]
					if len(sets) > 1 {
						r.Probe("ballots_with_two_expel_sets")
					}

					add(i, common.INITBallot(w.avp32, c.SignINIT(nd, es.fact), es.expels), fmt.Sprintf("node%d INIT h33r0 with expel of node%d", i, es.expelled))
				default:
					k := pick()
					if t == 1 {
						k = 1 - k
					}

					add(i, common.INITBallot(w.avp32, c.SignINIT(nd, initFacts[k]), nil), fmt.Sprintf("node%d INIT h33r0 fact%d", i, k))
				}
			}

			if expelled >= 0 && i != expelled && r.Chance(1, 2) {
				sf := isaac.NewINITBallotSignFact(scFact)
				if err := sf.NodeSign(nd.Privatekey(), common.NetworkID, nd.Address()); err != nil {
					panic(err)
				}

				add(i, isaac.NewINITBallot(ievp, sf, nil), fmt.Sprintf("node%d INIT h33r0 suffrage-confirm", i))
			}
		}

		// stage 2: ACCEPT (33,0)
		if stages >= 2 {
			k := pick()
			add(i, common.ACCEPTBallot(ivp33, c.SignACCEPT(nd, acceptFacts[k]), nil), fmt.Sprintf("node%d ACCEPT h33r0 fact%d", i, k))
		}

		// stage 3: INIT (33,1) after a draw
		if stages >= 3 && n >= 2 {
			k := pick()

			var vp base.Voteproof = drawI
			if r.Chance(1, 2) {
				vp = drawA
			}

			add(i, common.INITBallot(vp, c.SignINIT(nd, init1Facts[k]), nil), fmt.Sprintf("node%d INIT h33r1 fact%d", i, k))
		}

		// stage 4: INIT (34,0)
		if stages >= 4 {
			k := pick()
			add(i, common.INITBallot(avp33, c.SignINIT(nd, nextFacts[k]), nil), fmt.Sprintf("node%d INIT h34r0 fact%d", i, k))
		}
	}

	// the suffrage changes with block 33: a newcomer is a member from height 34 on. It votes for (34,0) like the
	// others; and a ballot for (34,0) may carry an ACCEPT voteproof of height 33 that counts the newcomer's vote -
	// well-formed, valid by the suffrage of the ballot's height, not by the suffrage of its own
	if stages >= 4 && r.Chance(1, 3) {
		w.newcomer = common.Local(80)

		suf34, err := isaac.NewSuffrage(append(common.Nodes(c.Nodes), w.newcomer))
		if err != nil {
			panic(err)
		}

		w.suf34 = suf34
		r.Probe("suffrage_changes_at_next_height")

		if r.Chance(2, 3) {
			add(-1, common.INITBallot(avp33, c.SignINIT(w.newcomer, nextFacts[pick()]), nil), "newcomer INIT h34r0")
		}

		if r.Chance(1, 2) {
			sfs := []base.BallotSignFact{c.SignACCEPT(w.newcomer, acceptFacts[0])}

			for i, nd := range c.Nodes {
				if i > 0 || n == 1 || r.Chance(1, 2) { // with or without one of the members
					sfs = append(sfs, c.SignACCEPT(nd, acceptFacts[0]))
				}
			}

			hostile := c.ACCEPTVoteproof(p0, sfs, acceptFacts[0])
			signer := w.newcomer

			if r.Chance(1, 2) {
				signer = c.Nodes[r.Choose(n)]
			}

			add(-1, common.INITBallot(hostile, c.SignINIT(signer, nextFacts[pick()]), nil), "INIT h34r0 carrying an ACCEPT h33 voteproof with the newcomer's vote")
			w.deliver[len(w.deliver)-1].hostile = true
			r.Probe("ballot_with_voteproof_valid_only_by_the_next_suffrage")
		}
	}

	// strangers: nodes that are not in the suffrage vote too (their ballots are well-formed and pass the ingress check;
	// only the suffrage tells them apart - which the box may learn after their ballots arrived)
	for k := 0; k < r.Choose(3); k++ {
		st := common.Local(60 + k)
		r.Probe("ballot_of_a_non_member")

		switch {
		case stages >= 2 && r.Chance(1, 3):
			add(-1, common.ACCEPTBallot(ivp33, c.SignACCEPT(st, acceptFacts[pick()]), nil), fmt.Sprintf("stranger%d ACCEPT h33r0", k))
		default:
			add(-1, common.INITBallot(w.avp32, c.SignINIT(st, initFacts[pick()]), nil), fmt.Sprintf("stranger%d INIT h33r0", k))
		}
	}

	// an impostor: the address of a member, signed with a key that is not the member's (well-formed, passes the
	// ingress check; the suffrage knows the member's real key)
	if n >= 2 && r.Chance(1, 4) {
		victim := 1 + r.Choose(n-1)
		im := base.NewBaseLocalNode(base.DummyNodeHint, common.Local(70).Privatekey(), c.Nodes[victim].Address())

		r.Probe("ballot_of_an_impostor")
		add(-1, common.INITBallot(w.avp32, c.SignINIT(im, initFacts[pick()]), nil), fmt.Sprintf("impostor of node%d INIT h33r0", victim))
	}

	// every generated ballot must pass the ingress check of a real node
	for _, d := range w.deliver {
		if err := d.bl.IsValid(common.NetworkID); err != nil {
			panic(fmt.Sprintf("harness generated an invalid ballot (%s): %+v", d.desc, err))
		}
	}

	// arrival order is the tape's
	for i := len(w.deliver) - 1; i > 0; i-- {
		j := r.Choose(i + 1)
		w.deliver[i], w.deliver[j] = w.deliver[j], w.deliver[i]
	}

	return w
}

// bbRecount is an independent tally of the sign facts of a voteproof.
func bbRecount(vp base.Voteproof, suf base.Suffrage) (result base.VoteResult, majority string, why string) {
	n := suf.Len()
	th := vp.Threshold()

	if w, ok := vp.(base.HasExpels); ok && len(w.Expels()) > 0 {
		n -= len(w.Expels())
		th = base.MaxThreshold
	}

	required := int(th.Threshold(uint(n))) // the required count comes from Threshold.Threshold (C02's subject)
	counts := map[string]int{}
	total := 0

	for _, sf := range vp.SignFacts() {
		counts[sf.Fact().Hash().String()]++
		total++
	}

	best, bestk := 0, ""
	for k, v := range counts {
		if v > best || (v == best && k < bestk) {
			best, bestk = v, k
		}
	}

	why = fmt.Sprintf("n=%d required=%d votes=%d best=%d", n, required, total, best)

	switch {
	case best >= required:
		return base.VoteResultMajority, bestk, why
	case best+(n-total) < required:
		return base.VoteResultDraw, "", why
	default:
		return base.VoteResultNotYet, "", why
	}
}

// bbDescribe names the voters and the expelled nodes of a voteproof by their index in the suffrage.
func bbDescribe(vp base.Voteproof, c *common.Cluster) string {
	idx := func(a base.Address) string {
		for i, nd := range c.Nodes {
			if nd.Address().Equal(a) {
				return fmt.Sprintf("node%d", i)
			}
		}

		return a.String()
	}

	var voters, expelled []string
	for _, sf := range vp.SignFacts() {
		voters = append(voters, idx(sf.Node()))
	}

	if w, ok := vp.(base.HasExpels); ok {
		for _, e := range w.Expels() {
			expelled = append(expelled, idx(e.ExpelFact().Node()))
		}
	}

	return fmt.Sprintf("suffrage=%d voters=%v expelled=%v", len(c.Nodes), voters, expelled)
}

type bbState struct {
	focusC06   bool
	w          *bbWorld
	box        *isaacstates.Ballotbox
	deliveredP map[string]bool            // stage points some ballot was delivered for
	deliveredS map[string]map[string]bool // stage point -> sign fact keys delivered
	embedded   map[string]base.Voteproof  // id -> embedded voteproof of a delivered ballot
	emitted    []base.Voteproof
	sufCalls   map[base.Height]int
	notFoundN  int
	sufErrAt   int

	// Vote calls in progress per record key, and the event sequence number at which the last one returned: a call
	// that passed the old-ballot test before the last point moved creates its record afterwards
	inflight    map[string]int
	lastVoteEnd map[string]int64
}

func (s *bbState) voteBegins(d *bbDelivery) string {
	k := keyOf(d.point, isaac.IsSuffrageConfirmBallotFact(d.bl.SignFact().Fact()))

	if s.inflight == nil {
		s.inflight, s.lastVoteEnd = map[string]int{}, map[string]int64{}
	}

	s.inflight[k]++

	return k
}

func (s *bbState) voteEnds(k string, seq int64) {
	s.inflight[k]--
	s.lastVoteEnd[k] = seq
}

// votedSince: a Vote call for the record key is in progress, or returned at or after the event seq
func (s *bbState) votedSince(k string, seq int64) bool {
	return s.inflight[k] > 0 || (s.lastVoteEnd[k] >= seq && s.lastVoteEnd[k] > 0)
}

func (s *bbState) noteDelivery(d *bbDelivery) {
	k := d.point.String()
	s.deliveredP[k] = true

	if s.deliveredS[k] == nil {
		s.deliveredS[k] = map[string]bool{}
	}

	s.deliveredS[k][d.sfKey] = true

	if vp := d.bl.Voteproof(); vp != nil {
		s.embedded[vp.ID()] = vp
	}
}

func (s *bbState) drain() {
	for {
		select {
		case vp := <-s.box.Voteproof():
			s.emitted = append(s.emitted, vp)
			s.judge(vp)
		default:
			return
		}
	}
}

// judge applies the four clauses of C04 to one emitted voteproof.
func (s *bbState) judge(vp base.Voteproof) {
	r := s.w.r

	if s.focusC06 { // this run is a population of the C06 check: C04's clauses are the C04 check's business
		return
	}

	r.Checked()

	pk := vp.Point().String()
	_, isEmbedded := s.embedded[vp.ID()]
	kind := "built"

	if isEmbedded {
		kind = "passed-through"
		r.Probe("voteproof_passed_through")
	} else {
		r.Probe("voteproof_built")
	}

	if _, stuck := vp.(base.StuckVoteproof); stuck {
		kind = "stuck"
		r.Probe("voteproof_stuck")
	}

	// (1) for a stage point it was voting on
	if !s.deliveredP[pk] && !isEmbedded {
		r.Fail("foreign-stage-point", kind, "voteproof %s is for %s, for which no ballot was delivered and which is not an embedded voteproof", vp.ID(), pk)
	}

	// (2) only sign facts for that stage point, distinct nodes of the suffrage, delivered
	suf := s.w.sufAt(vp.Point().Height())
	seen := map[string]bool{}

	for _, sf := range vp.SignFacts() {
		fact := sf.Fact().(base.BallotFact) //nolint:forcetypeassert //...

		if !fact.Point().Equal(vp.Point()) {
			r.Fail("sign-fact-of-other-point", kind, "voteproof for %s contains a sign fact for %s", pk, fact.Point())
		}

		if seen[sf.Node().String()] {
			r.Fail("duplicate-voter", kind, "voteproof for %s contains two sign facts of %s", pk, sf.Node())
		}

		seen[sf.Node().String()] = true

		if !suf.ExistsPublickey(sf.Node(), sf.Signer()) {
			r.Fail("non-member-voter", kind, "voteproof for %s contains a sign fact of %s who is not in the suffrage with that key", pk, sf.Node())
		}

		if !isEmbedded && !s.deliveredS[pk][bbSFKey(sf)] {
			r.Fail("invented-vote", kind, "voteproof for %s contains a sign fact of %s that was never delivered in a ballot for that point", pk, sf.Node())
		}
	}

	// (3) the validation other nodes apply
	if err := vp.IsValid(common.NetworkID); err != nil {
		r.Fail("invalid-voteproof", kind+":isvalid", "emitted voteproof for %s fails IsValid: %v", pk, err)
	}

	if err := isaac.IsValidVoteproofWithSuffrage(vp, suf); err != nil {
		r.Fail("invalid-voteproof", kind+":with-suffrage", "emitted voteproof for %s (%d sign facts, result %s) fails IsValidVoteproofWithSuffrage: %v; %s", pk, len(vp.SignFacts()), vp.Result(), err, bbDescribe(vp, s.w.c))
	}

	// (4) result equals a fresh recount
	if _, stuck := vp.(base.StuckVoteproof); !stuck {
		res, maj, why := bbRecount(vp, suf)

		got := ""
		if vp.Majority() != nil {
			got = vp.Majority().Hash().String()
		}

		if res != vp.Result() || (res == base.VoteResultMajority && got != maj) {
			r.Fail("result-differs-from-recount", kind, "voteproof for %s says %s (majority %.12s) but a recount of its %d sign facts gives %s (majority %.12s; %s)",
				pk, vp.Result(), got, len(vp.SignFacts()), res, maj, why)
		}
	}
}

func bbRun(r *simkit.Run, c05 bool) {
	// the ballotbox recycles records through a sync.Pool: empty it (two
	// collections clear the pool and its victim cache) so that a run does not
	// depend on what earlier runs of this worker left there, and replays in a
	// fresh process see the same pool
	runtime.GC()
	runtime.GC()

	w := bbBuild(r)
	focusC06 := os.Getenv("VERIF_FOCUS") == "C06"
	s := &bbState{focusC06: focusC06,
		w: w, deliveredP: map[string]bool{}, deliveredS: map[string]map[string]bool{}, embedded: map[string]base.Voteproof{},
		sufCalls: map[base.Height]int{}, sufErrAt: -1,
	}

	if r.Flag("suffrage_not_yet_known") {
		s.notFoundN = 1 + r.Choose(6)
	}

	if r.Chance(1, 10) {
		s.sufErrAt = r.Choose(8)
	}

	errSuf := errors.New("suffrage lookup failed")
	calls := 0

	getSuffrage := func(h base.Height) (base.Suffrage, bool, error) {
		calls++

		if calls-1 == s.sufErrAt {
			r.Fault("suffrage_lookup_error")

			return nil, false, errSuf
		}

		if s.sufCalls[h] < s.notFoundN {
			s.sufCalls[h]++
			r.Fault("suffrage_not_found_yet")

			return nil, false, nil
		}

		// the box asks by block height: the suffrage that votes on height H is the one block H-1 established
		return w.sufAt(h + 1), true, nil
	}

	box := isaacstates.NewBallotbox(w.c.Nodes[0].Address(), func() base.Threshold { return w.c.Threshold }, getSuffrage)
	box.SetInterval([]time.Duration{50 * time.Millisecond, time.Second}[r.Draw("ticker_interval", 0, 1)])
	box.SetCountAfter([]time.Duration{100 * time.Millisecond, 5 * time.Second}[r.Draw("count_after", 0, 1)])
	s.box = box

	var c5 *c05Oracle
	if c05 {
		c5 = newC05Oracle(r, s)
		defer c5.restore()
	}

	// a panic inside the ballotbox (its own goroutines, or a call made by a harness task)
	r.OnSUTPanic(func(site, value, stack string) {
		r.Probe("ballotbox_panicked")

		if c5 != nil {
			c5.panicked(site, value, stack)
		}
		// C04 speaks only about the voteproofs that are emitted; a panic is C05's subject (a released record being consulted)
	})

	ctx, cancel := context.WithCancel(context.Background())
	r.OnEnd(cancel)

	if err := box.Start(ctx); err != nil {
		panic(err)
	}

	nvoters := r.Draw("voters", 1, 4)
	plans := make([][]*bbDelivery, nvoters)

	for i, d := range w.deliver {
		plans[i%nvoters] = append(plans[i%nvoters], d)
	}

	// duplicated deliveries
	for v := range plans {
		if len(plans[v]) > 0 && r.Chance(1, 3) {
			plans[v] = append(plans[v], plans[v][r.Choose(len(plans[v]))])
			r.Fault("duplicate_delivery")
		}
	}

	for v := range plans {
		v := v

		r.Go(fmt.Sprintf("voter%d", v), func() {
			for _, d := range plans[v] {
				s.noteDelivery(d)

				var (
					voted bool
					err   error
				)

				vk := s.voteBegins(d)
				panicked := r.Guard("vote", func() { voted, err = box.Vote(d.bl) })
				s.voteEnds(vk, r.Seq())

				if panicked {
					continue
				}

				if err != nil && !errors.Is(err, errSuf) && !d.hostile {
					r.Fail("vote-error", "error", "Vote(%s): %v", d.desc, err)
				}

				if !d.called {
					d.called, d.voted = true, voted
				}

				r.Event(fmt.Sprintf("v%d %s -> %v", v, d.desc, voted))

				if r.Chance(1, 6) {
					time.Sleep(time.Duration(1+r.Choose(2000)) * time.Millisecond)
				}
			}
		})
	}

	// control task: the other entry points of the statement's quantifier
	ncontrol := r.Draw("control_steps", 0, 8)

	type ctl struct {
		kind int
		pt   int
		some int // kind 6: 0 = expels for all missing nodes, k>0 = only for some of them
	}

	points := []base.StagePoint{
		base.NewStagePoint(base.NewPoint(33, 0), base.StageINIT), base.NewStagePoint(base.NewPoint(33, 0), base.StageACCEPT),
		base.NewStagePoint(base.NewPoint(33, 1), base.StageINIT), base.NewStagePoint(base.NewPoint(34, 0), base.StageINIT),
	}

	cplan := make([]ctl, ncontrol)
	for i := range cplan {
		cplan[i] = ctl{kind: r.Choose(7), pt: r.Choose(len(points))}

		if cplan[i].kind == 6 && r.Chance(1, 2) {
			cplan[i].some = 1 + r.Choose(4)
		}
	}

	r.Go("control", func() {
		for _, cs := range cplan {
			pt := points[cs.pt]
			cs := cs

			r.Guard("control", func() {
				switch cs.kind {
				case 0:
					box.Count()
					r.Event("count")
				case 1:
					lp, _ := isaac.NewLastPoint(pt, r.Chance(1, 2), false)
					ok := box.SetLastPoint(lp)
					r.Event(fmt.Sprintf("setlastpoint %s -> %v", pt, ok))
				case 2:
					_, _, _ = box.MissingNodes(pt)
				case 3:
					_ = box.Voted(pt, nil)
				case 4:
					time.Sleep(time.Duration(1+r.Choose(6000)) * time.Millisecond)
				case 5:
					if c5 != nil {
						c5.harnessClean()
					} else {
						box.Count()
					}
				case 6:
					// what the stuck resolver does: expel exactly the nodes that have not voted for the point
					missing, found, err := box.MissingNodes(pt)
					if err != nil || !found || len(missing) < 1 || len(missing) >= w.n {
						return
					}

					// MissingNodes never names the local node (a node votes its own ballot first); keep to that situation
					if len(box.Voted(pt, []base.Address{w.c.Nodes[0].Address()})) < 1 {
						return
					}

					// the expels that gathered enough signatures may cover only some of the missing nodes
					// (SuffrageVoting.Find answers with what it has); a node whose ballot has not arrived here
					// can still have signed the expel of another node
					if cs.some > 0 && len(missing) > 1 {
						missing = missing[:1+(cs.some-1)%(len(missing)-1)]
						r.Probe("stuck_with_expels_of_some_missing_nodes")
					}

					var signers []base.LocalNode

					for _, nd := range w.c.Nodes {
						miss := false

						for _, m := range missing {
							if m.Equal(nd.Address()) {
								miss = true
							}
						}

						if !miss {
							signers = append(signers, nd)
						}
					}

					var expels []base.SuffrageExpelOperation
					for _, m := range missing {
						expels = append(expels, w.c.Expel(m, pt.Height(), pt.Height(), signers))
					}

					vp, err := box.StuckVoteproof(pt, expels)
					if err == nil && vp != nil {
						r.Event("stuck voteproof for " + pt.String())
						s.judge(vp)
					}
				}
			})
		}
	})

	// C06 over the positions the ballotbox takes on its own while it votes and counts (population of the C06 check)
	lastPos := pos{zero: true}

	var posHistory []string

	watchPosition := func() {
		if !focusC06 {
			return
		}

		cur := posOfLastPoint(box.LastPoint())
		if cur == lastPos {
			return
		}

		r.Checked()
		posHistory = append(posHistory, cur.String())

		if why, bad := illegalMove(lastPos, cur); bad {
			r.Fail("illegal-move", why, "the last point of the ballotbox moved %s -> %s (%s) while voting and counting; history: %v", lastPos, cur, why, posHistory)
		}

		lastPos = cur
	}

	r.Sched(simkit.SchedOpts{
		MaxSteps: 400000, Stick: r.DrawStick(), ClockDen: 40, MaxSim: 2 * time.Minute,
		Quanta: []time.Duration{10 * time.Millisecond, 60 * time.Millisecond, time.Second, 6 * time.Second},
		Invariant: func() {
			s.drain()
			watchPosition()

			if c5 != nil {
				c5.check()
			}
		},
	})

	if r.Unfinished() {
		r.Fail("liveness", "ballotbox", "voters did not finish (live=%d)", r.Live())
	}

	// let the ticker count held voteproofs, then stop the box
	tail := r.Now() + 7*time.Second
	r.Sched(simkit.SchedOpts{MaxSteps: 100000, KeepGoing: true, MaxSim: tail, Quanta: []time.Duration{time.Second, 3 * time.Second},
		Invariant: func() {
			s.drain()

			if c5 != nil {
				c5.check()
			}
		}})

	stopped := false
	r.Go("stop-box", func() { _ = box.Stop(); stopped = true })
	r.Sched(simkit.SchedOpts{MaxSteps: 100000, KeepGoing: true, Until: func() bool { return stopped }, MaxSim: tail + time.Minute})
	s.drain()

	if c5 != nil {
		c5.final()
	}

	var ds []string
	for _, d := range w.deliver {
		ds = append(ds, d.desc)
	}

	sort.Strings(ds)
	r.Op("suffrage=%d threshold=%v deliveries=%d emitted=%d [%s]", w.n, w.c.Threshold, len(w.deliver), len(s.emitted), strings.Join(ds, "; "))
	r.ProbeN("voteproofs_emitted", len(s.emitted))
}

func init() {
	simkit.Register(&simkit.Harness{
		ID:          "C04",
		Run:         func(r *simkit.Run) { bbRun(r, false) },
		Real:        []string{"isaacstates.Ballotbox (Vote, Count, SetLastPoint, StuckVoteproof paths via count, MissingNodes, Voted, ticker)", "voterecords", "isaac.IsValidVoteproofWithSuffrage", "base.IsValidVoteproof", "ballot/voteproof/expel types, secp256k1 signatures"},
		Stub:        []string{"suffrage lookup (harness function that can answer not-found-yet or fail)", "ballots are signed by the harness with the remote nodes' keys and pass Ballot.IsValid before delivery, as launch does"},
		Rule:        "each run draws a suffrage of 1-5 nodes, a threshold (67/75/100), 1-4 consecutive stage points (h33r0 INIT, h33r0 ACCEPT, h33r1 INIT after a draw, h34r0 INIT), honest and conflicting facts, nodes sending two ballots, ballots with expels and suffrage-confirm ballots over an expel voteproof, embedded voteproofs (majority and draw), in a third of the four-point runs a suffrage that gains a member at height 34 (the box is asked by block height) and ballots for (34,0) carrying an ACCEPT voteproof of height 33 that counts the newcomer's vote, duplicated deliveries in tape-chosen order by 1-4 concurrent voter tasks, a control task (Count, SetLastPoint, MissingNodes, Voted, sleeps, and the stuck resolver's step: MissingNodes, then StuckVoteproof with valid expels of all or of only some of the nodes named missing; the returned voteproof is judged like an emitted one), the box's ticker on the fake clock, and a suffrage lookup that is unknown for the first k calls or fails. Every voteproof received from Voteproof() is judged by the four clauses of the statement with an independent recount. distinct = event-log hash",
		Assumptions: []string{"the required vote count in the recount comes from base.Threshold.Threshold (subject of C02)", "ballots reach Vote only if Ballot.IsValid(networkID) passes, as in launch"},
	})
}
