package consh

import (
	"context"
	"fmt"
	"time"

	"github.com/spikeekips/mitum/base"
	"github.com/spikeekips/mitum/isaac"
	isaacdatabase "github.com/spikeekips/mitum/isaac/database"
	isaacstates "github.com/spikeekips/mitum/isaac/states"
	"github.com/spikeekips/mitum/simkit"
	leveldbstorage "github.com/spikeekips/mitum/storage/leveldb"
	"github.com/spikeekips/mitum/util"
	"github.com/spikeekips/mitum/util/valuehash"
	"github.com/spikeekips/mitum/vh/common"
)

type c08Sent struct {
	point string
	sc    bool
	fact  string
	seq   int64
	via   string
}

func c08Run(r *simkit.Run) {
	encs, enc := common.Encs()
	st := leveldbstorage.NewMemStorage()

	r.OnEnd(func() { _ = st.Close() })

	pool, err := isaacdatabase.NewTempPool(st, encs, enc, 0)
	if err != nil {
		panic(err)
	}

	n := r.Draw("suffrage", 2, 5)
	c := common.NewCluster(0, n, base.Threshold(67))
	local := c.Nodes[0]

	// ---- what leaves the node ----
	var sent []c08Sent

	broadcaster := isaacstates.NewDefaultBallotBroadcaster(local.Address(), pool, func(bl base.Ballot) error {
		if bl.SignFact().Node().Equal(local.Address()) {
			fact := bl.SignFact().Fact().(base.BallotFact) //nolint:forcetypeassert //...
			sent = append(sent, c08Sent{point: bl.Point().String(), sc: isaac.IsSuffrageConfirmBallotFact(fact), fact: fact.Hash().String(), seq: r.Seq()})
			r.Event(fmt.Sprintf("broadcast local %s fact %.10s", bl.Point(), fact.Hash()))
		}

		return nil
	})

	box := isaacstates.NewBallotbox(local.Address(), func() base.Threshold { return c.Threshold },
		func(base.Height) (base.Suffrage, bool, error) { return c.Suf, true, nil })

	args := isaacstates.NewStatesArgs()
	args.AllowConsensus = true
	args.Ballotbox = box
	args.BallotBroadcaster = broadcaster
	args.IsInSyncSourcePoolFunc = func(base.Address) bool { return true }
	args.IntervalBroadcastBallot = func() time.Duration { return []time.Duration{300 * time.Millisecond, 3 * time.Second}[r.Choose(2)] }

	states, err := isaacstates.NewStates(common.NetworkID, local, args)
	if err != nil {
		panic(err)
	}

	isaacstates.VerifInstallStubHandlers(states, func(isaacstates.VerifEvent) (int, isaacstates.StateType) {
		return isaacstates.VerifOK, isaacstates.StateEmpty
	})

	ctx, cancel := context.WithCancel(context.Background())
	r.OnEnd(cancel)

	r.Do("start", func() {
		if err := states.Start(ctx); err != nil {
			panic(err)
		}

		if err := box.Start(ctx); err != nil {
			panic(err)
		}

		// the node is syncing, with consensus allowed: the situation in which it mimics ballots
		_ = states.VerifAskMoveState(isaacstates.StateBooting, isaacstates.StateSyncing)
	})

	r.Sched(simkit.SchedOpts{MaxSteps: 100000, KeepGoing: true, Until: func() bool { return states.Current() == isaacstates.StateSyncing }, MaxSim: time.Minute})

	// ---- the situation: height 33, peers vote for different facts ----
	p32, B32 := valuehash.RandomSHA256(), valuehash.RandomSHA256()
	avp32 := c.MajorityACCEPT(base.RawPoint(32, 0), p32, B32)
	p0 := base.NewPoint(33, 0)
	proposals := []util.Hash{valuehash.RandomSHA256(), valuehash.RandomSHA256()}
	initFacts := []base.INITBallotFact{isaac.NewINITBallotFact(p0, B32, proposals[0], nil), isaac.NewINITBallotFact(p0, B32, proposals[1], nil)}
	ivp33 := c.MajorityINIT(p0, initFacts[0])
	blocks := []util.Hash{valuehash.RandomSHA256(), valuehash.RandomSHA256()}
	acceptFacts := []base.ACCEPTBallotFact{isaac.NewACCEPTBallotFact(p0, proposals[0], blocks[0], nil), isaac.NewACCEPTBallotFact(p0, proposals[0], blocks[1], nil)}

	// the proposal the handler path would select
	prFact := isaac.NewProposalFact(p0, c.Nodes[1].Address(), B32, nil)
	pr := isaac.NewProposalSignFact(prFact)
	if err := pr.Sign(c.Nodes[1].Privatekey(), common.NetworkID); err != nil {
		panic(err)
	}

	handler := isaacstates.VerifNewBallotHandler(states, c.Suf, func(context.Context, base.Point, util.Hash, time.Duration) (base.ProposalSignFact, error) {
		r.ForceYield("select-proposal")

		return pr, nil
	})

	stages := r.Draw("stages", 1, 2) // 1: INIT only, 2: INIT and ACCEPT
	conflict := r.Flag("peers_disagree")
	useHandler := r.Flag("handler_in_flight")

	// peers (in the sync source pool) deliver their ballots
	for i := 1; i < n; i++ {
		i := i

		r.Go(fmt.Sprintf("peer%d", i), func() {
			k := 0
			if conflict && r.Chance(1, 2) {
				k = 1
			}

			bl := common.INITBallot(avp32, c.SignINIT(c.Nodes[i], initFacts[k]), nil)
			voted, err := box.Vote(bl)
			r.Event(fmt.Sprintf("peer%d INIT fact%d voted=%v err=%v", i, k, voted, err != nil))

			if stages >= 2 {
				if r.Chance(1, 2) {
					time.Sleep(time.Duration(1+r.Choose(500)) * time.Millisecond)
				}

				k := 0
				if conflict && r.Chance(1, 2) {
					k = 1
				}

				abl := common.ACCEPTBallot(ivp33, c.SignACCEPT(c.Nodes[i], acceptFacts[k]), nil)
				voted, err := box.Vote(abl)
				r.Event(fmt.Sprintf("peer%d ACCEPT fact%d voted=%v err=%v", i, k, voted, err != nil))
			}

			// duplicated delivery
			if r.Chance(1, 3) {
				_, _ = box.Vote(bl)
			}
		})
	}

	// a consensus handler still in flight while the state has already switched to syncing
	if useHandler {
		r.Go("handler", func() {
			if r.Chance(1, 2) {
				time.Sleep(time.Duration(r.Choose(300)) * time.Millisecond)
			}

			err := handler.INIT(ctx, p0, B32, avp32, c.Suf)
			r.Event(fmt.Sprintf("handler INIT err=%v", err != nil))

			if stages >= 2 {
				err := handler.ACCEPT(ivp33, blocks[r.Choose(2)])
				r.Event(fmt.Sprintf("handler ACCEPT err=%v", err != nil))
			}
		})
	}

	check := func() {
		seen := map[string]c08Sent{}

		for _, s := range sent {
			key := fmt.Sprintf("%s/sc=%v", s.point, s.sc)
			r.Checked()

			if o, ok := seen[key]; ok && o.fact != s.fact {
				sig := "mimic-only"
				if useHandler {
					sig = "mimic-and-handler"
				}

				r.Fail("local-node-equivocated", sig, "the local node broadcast two different ballot facts for %s: %.12s (seq %d) and %.12s (seq %d)", key, o.fact, o.seq, s.fact, s.seq)
			}

			if _, ok := seen[key]; !ok {
				seen[key] = s
			}
		}
	}

	r.Sched(simkit.SchedOpts{MaxSteps: 2000000, Stick: r.DrawStick(), ClockDen: 25, MaxSim: 2 * time.Minute, Invariant: check,
		Quanta: []time.Duration{time.Millisecond, 33 * time.Millisecond, 300 * time.Millisecond, 3 * time.Second}})

	// re-broadcast timers keep firing for a while
	tail := r.Now() + time.Duration(1+r.Choose(8))*time.Second
	r.Sched(simkit.SchedOpts{MaxSteps: 500000, KeepGoing: true, MaxSim: tail, Invariant: check, Quanta: []time.Duration{300 * time.Millisecond, time.Second}})
	r.Try(check)

	if r.Unfinished() {
		r.Fail("liveness", "states", "peers/handler did not finish")
	}

	r.Op("suffrage=%d stages=%d peers disagree=%v handler in flight=%v local broadcasts=%d", n, stages, conflict, useHandler, len(sent))
	r.ProbeN("local_broadcasts", len(sent))

	stopped := false
	r.Go("stop", func() { _ = box.Stop(); _ = states.Stop(); stopped = true })
	r.Sched(simkit.SchedOpts{MaxSteps: 500000, KeepGoing: true, Until: func() bool { return stopped }, MaxSim: tail + time.Minute})
}

func init() {
	simkit.Register(&simkit.Harness{
		ID:          "C08",
		Run:         c08Run,
		Real:        []string{"isaacstates.States.mimicBallotFunc / mimicBallot", "isaacstates.DefaultBallotBroadcaster (Broadcast, set)", "isaacstates.Ballotbox (newBallotf wiring)", "baseBallotHandler.makeINITBallot / makeACCEPTBallot and ballotBroadcastTimers (through a verif-tagged accessor)", "isaacdatabase.TempPool ballot pool", "util.SimpleTimers on the fake clock"},
		Stub:        []string{"state handlers are the C09 stubs (the node is put into SYNCING with consensus allowed)", "proposal selection returns a fixed proposal", "transport: the broadcast function records what leaves the node; the harness never signs for the local node"},
		Rule:        "each run draws a suffrage of 2-5, one or two stages (INIT, ACCEPT of h33r0), whether the peers (all in the sync source pool) vote for different facts, and whether a consensus handler is still in flight making the local INIT/ACCEPT ballot itself; peers deliver concurrently (with duplicates), the re-broadcast timers fire on the fake clock. Over everything the broadcast function saw: per (stage point, suffrage-confirm flag) at most one distinct locally signed ballot fact. distinct = event-log hash",
		Assumptions: []string{"crash/restart of the node is not part of this harness yet"},
	})
}
