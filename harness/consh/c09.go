package consh

import (
	"context"
	"fmt"
	"strings"
	"time"

	"github.com/spikeekips/mitum/base"
	"github.com/spikeekips/mitum/isaac"
	isaacstates "github.com/spikeekips/mitum/isaac/states"
	"github.com/spikeekips/mitum/simkit"
	"github.com/spikeekips/mitum/util/valuehash"
	"github.com/spikeekips/mitum/vh/common"
)

var c09States = []isaacstates.StateType{
	isaacstates.StateStopped, isaacstates.StateBooting, isaacstates.StateJoining, isaacstates.StateConsensus,
	isaacstates.StateSyncing, isaacstates.StateHandover, isaacstates.StateBroken,
}

func c09Run(r *simkit.Run) {
	args := isaacstates.NewStatesArgs()
	args.AllowConsensus = r.Flag("allow_consensus_at_start")
	args.IntervalBroadcastBallot = func() time.Duration { return time.Second }

	var (
		st            *isaacstates.States
		events        []isaacstates.VerifEvent
		callbacks     []string
		holdsInFlight int
		holdSeen      bool
	)

	failDen := []int{0, 12, 5}[r.Draw("handler_failure_density", 0, 2)]

	script := func(ev isaacstates.VerifEvent) (int, isaacstates.StateType) {
		out, redirect := isaacstates.VerifOK, isaacstates.StateEmpty

		// the stopped and broken handlers of a real node do not fail
		if failDen > 0 && ev.State != isaacstates.StateStopped && ev.State != isaacstates.StateBroken && r.Chance(1, failDen) {
			switch r.Choose(3) {
			case 0:
				out = isaacstates.VerifError
			case 1:
				out = isaacstates.VerifRedirect
				redirect = c09States[1+r.Choose(len(c09States)-1)]

				if redirect == ev.State { // a handler does not redirect to itself
					out = isaacstates.VerifOK
				}
			default:
				if ev.Kind == "exit" {
					out = isaacstates.VerifIgnore
				}
			}
		}

		ev.Outcome, ev.Redirect = out, redirect
		events = append(events, ev)
		r.Event(fmt.Sprintf("%s %s from=%s next=%s allowed=%v -> %d %s", ev.Kind, ev.State, ev.From, ev.Next, ev.Allowed, out, redirect))

		return out, redirect
	}

	args.WhenStateSwitchedFunc = func(next isaacstates.StateType) {
		cur := st.Current()
		callbacks = append(callbacks, string(next))
		r.Checked()

		// (4) the reported switch matches the state the machine is in
		if cur != next {
			sig := "callback-differs-from-current"
			if holdsInFlight > 0 || holdSeen {
				sig = "callback-differs-from-current:hold-in-flight"
			}

			r.Fail("reported-switch-differs", sig, "the switched callback reports %s while Current() is %s (callbacks so far: %v)", next, cur, callbacks)
		}
	}

	var err error

	st, err = isaacstates.NewStates(common.NetworkID, common.Local(0), args)
	if err != nil {
		panic(err)
	}

	isaacstates.VerifInstallStubHandlers(st, script)

	ctx, cancel := context.WithCancel(context.Background())
	r.OnEnd(cancel)

	// Start runs the switch loop in its own goroutine
	r.Do("start", func() {
		if err := st.Start(ctx); err != nil {
			panic(err)
		}
	})

	nreq := r.Draw("requesters", 1, 4)
	useHold := r.Flag("hold_calls")

	type req struct {
		kind       int // 0 ask, 1 toggle, 2 voteproof, 3 hold, 4 sleep
		from, next isaacstates.StateType
		allow      bool
		stale      bool
	}

	plans := make([][]req, nreq)
	vpHeight := 33

	for c := range plans {
		for k := r.Draw("requests", 1, 10); k > 0; k-- {
			q := req{kind: []int{0, 0, 0, 0, 1, 1, 2, 3, 4}[r.Choose(9)]}
			q.next = c09States[r.Choose(len(c09States))]
			q.from = c09States[r.Choose(len(c09States))]
			q.stale = r.Chance(1, 3) // otherwise the requester reads the current state first
			q.allow = r.Chance(1, 2)

			if q.kind == 3 && !useHold {
				q.kind = 0
			}

			plans[c] = append(plans[c], q)
		}
	}

	for c := range plans {
		c := c

		r.Go(fmt.Sprintf("requester%d", c), func() {
			for _, q := range plans[c] {
				switch q.kind {
				case 0:
					from := q.from
					if !q.stale {
						from = st.Current()
					}

					err := st.VerifAskMoveState(from, q.next)
					r.Event(fmt.Sprintf("r%d ask %s->%s err=%v", c, from, q.next, err != nil))
				case 1:
					ok := st.SetAllowConsensus(q.allow)
					r.Event(fmt.Sprintf("r%d allow=%v -> %v", c, q.allow, ok))
				case 2:
					vpHeight++
					point := base.RawPoint(int64(vpHeight), 0)
					vp := isaac.NewINITVoteproof(point)
					vp.SetMajority(isaac.NewINITBallotFact(point, valuehash.RandomSHA256(), valuehash.RandomSHA256(), nil)).SetThreshold(base.Threshold(67))
					vp.Finish()
					st.VerifNewVoteproof(vp)
					r.Event(fmt.Sprintf("r%d voteproof h%d", c, vpHeight))
				case 3:
					holdsInFlight++
					holdSeen = true
					err := st.Hold()
					holdsInFlight--
					r.Event(fmt.Sprintf("r%d hold err=%v", c, err != nil))
				case 4:
					time.Sleep(time.Duration(1+r.Choose(200)) * time.Millisecond)
				}
			}
		})
	}

	var samples []isaacstates.StateType

	sample := func() {
		cur := st.Current()
		if len(samples) == 0 || samples[len(samples)-1] != cur {
			samples = append(samples, cur)
		}
	}

	r.Sched(simkit.SchedOpts{MaxSteps: 400000, Stick: r.DrawStick(), ClockDen: 30, MaxSim: time.Minute, Invariant: sample,
		Quanta: []time.Duration{time.Millisecond, 33 * time.Millisecond, 300 * time.Millisecond}})

	// let queued requests drain
	r.Sched(simkit.SchedOpts{MaxSteps: 100000, KeepGoing: true, MaxSim: r.Now() + 2*time.Second, Invariant: sample, Quanta: []time.Duration{100 * time.Millisecond}})
	r.Try(sample)

	if r.Unfinished() {
		r.Fail("liveness", "states", "requesters did not finish")
	}

	r.Op("requesters=%d events=%d callbacks=%v states sampled=%v", nreq, len(events), callbacks, samples)

	// (1) Stopped goes only to Booting or Broken
	for i := 0; i+1 < len(samples); i++ {
		if samples[i] == isaacstates.StateStopped && samples[i+1] != isaacstates.StateBooting && samples[i+1] != isaacstates.StateBroken {
			r.Fail("left-stopped-wrongly", string(samples[i+1]), "the machine went from STOPPED to %s (sampled states: %v)", samples[i+1], samples)
		}
	}

	for _, ev := range events {
		r.Checked()

		// (2) a request whose origin is not the current state has no effect: a handler is only ever asked to exit for a context that starts at itself
		if ev.Kind == "exit" && ev.From != ev.State {
			r.Fail("stale-request-had-effect", "exit-with-foreign-from", "handler %s was asked to exit for a switch %s -> %s", ev.State, ev.From, ev.Next)
		}

		// (3) not allowed => never enters Joining or Consensus (no handover broker exists in this harness)
		if ev.Kind == "enter" && !ev.Allowed && (ev.State == isaacstates.StateJoining || ev.State == isaacstates.StateConsensus) {
			sig := "entered-" + strings.ToLower(string(ev.State))
			r.Fail("entered-consensus-while-not-allowed", sig, "handler %s was entered (from %s) while consensus was not allowed", ev.State, ev.From)
		}
	}

	stopped := false
	r.Go("stop", func() { _ = st.Stop(); stopped = true })
	r.Sched(simkit.SchedOpts{MaxSteps: 100000, KeepGoing: true, Until: func() bool { return stopped }, MaxSim: r.Now() + time.Minute})
}

func init() {
	simkit.Register(&simkit.Harness{
		ID:          "C09",
		Run:         c09Run,
		Real:        []string{"isaacstates.States (switch loop, AskMoveState, checkStateSwitchContext, ensureSwitchState, exitAndEnter, SetAllowConsensus, Hold, voteproof channel)", "ballotBroadcastTimers / util.SimpleTimers"},
		Stub:        []string{"all seven state handlers are verif-tagged stubs (scratch copy only) whose enter/exit/newVoteproof outcomes (ok, error, redirecting switch context, ignore) come from the tape", "no handover brokers: the 'except by completing a handover' part of the statement is not exercised"},
		Rule:        "each run draws whether consensus is allowed at start, a handler failure density, 1-4 concurrent requesters x 1-10 requests: AskMoveState with a fresh or stale origin and any target, SetAllowConsensus toggles, voteproof injections, Hold, sleeps. Oracle, exactly the four clauses of the statement: STOPPED is left only for BOOTING/BROKEN (states sampled after every kernel step); a handler is only asked to exit for a context that starts at its own state; JOINING/CONSENSUS are never entered while consensus is not allowed; inside every switched callback Current() equals the reported state. distinct = event-log hash",
		Assumptions: []string{"like the real joining/consensus handlers, the stubs ask to leave for SYNCING when consensus is withdrawn"},
	})
}
