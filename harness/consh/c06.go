// Package consh holds the consensus-core harnesses (last point, ballotbox, states).
package consh

import (
	"fmt"

	"github.com/spikeekips/mitum/base"
	"github.com/spikeekips/mitum/isaac"
	isaacstates "github.com/spikeekips/mitum/isaac/states"
	"github.com/spikeekips/mitum/simkit"
	"github.com/spikeekips/mitum/util"
	"github.com/spikeekips/mitum/util/valuehash"
	"github.com/spikeekips/mitum/vh/common"
)

// pos is a consensus position as the statement defines it.
type pos struct {
	zero   bool
	height base.Height
	round  base.Round
	stage  base.Stage
	maj    bool
	sc     bool
}

func (p pos) String() string {
	if p.zero {
		return "(none)"
	}

	return fmt.Sprintf("(h%d r%d %s maj=%v sc=%v)", p.height, p.round, p.stage, p.maj, p.sc)
}

func posOfLastPoint(l isaac.LastPoint) pos {
	if l.IsZero() {
		return pos{zero: true}
	}

	return pos{height: l.Height(), round: l.Round(), stage: l.Stage(), maj: l.IsMajority(), sc: l.IsSuffrageConfirm()}
}

func posOfVoteproof(vp base.Voteproof) pos {
	if vp == nil {
		return pos{zero: true}
	}

	return pos{
		height: vp.Point().Height(), round: vp.Point().Round(), stage: vp.Point().Stage(),
		maj: vp.Result() == base.VoteResultMajority, sc: isaac.IsSuffrageConfirmBallotFact(vp.Majority()),
	}
}

// illegalMove is the executable form of the statement and of nothing else.
func illegalMove(l, n pos) (string, bool) {
	if l.zero || n.zero {
		if !l.zero && n.zero {
			return "position-cleared", true
		}

		return "", false
	}

	if n == l {
		return "", false // unchanged: no move
	}

	switch {
	case n.height < l.height:
		return "lower-height", true
	case n.height > l.height:
		return "", false
	}

	earlier := n.round < l.round || (n.round == l.round && n.stage.Compare(l.stage) < 0)
	if earlier && !(n.sc && !l.maj) {
		return "earlier-round-or-stage", true
	}

	return "", false
}

type c06Cand struct {
	p  pos
	lp isaac.LastPoint
	vp base.Voteproof
}

func c06GenCand(r *simkit.Run, baseH base.Height) c06Cand {
	p := pos{
		height: baseH + base.Height(r.Choose(4)),
		round:  base.Round(r.Choose(3)),
		stage:  []base.Stage{base.StageINIT, base.StageACCEPT}[r.Choose(2)],
		maj:    r.Chance(1, 2),
	}

	if p.stage == base.StageINIT && p.maj && r.Chance(1, 3) {
		p.sc = true
	}

	point := base.NewStagePoint(base.NewPoint(p.height, p.round), p.stage)

	lp, err := isaac.NewLastPoint(point, p.maj, p.sc)
	if err != nil {
		panic(err)
	}

	var vp base.Voteproof

	switch p.stage {
	case base.StageINIT:
		ivp := isaac.NewINITVoteproof(point.Point)

		switch {
		case p.sc:
			ivp.SetMajority(isaac.NewSuffrageConfirmBallotFact(point.Point, valuehash.RandomSHA256(), valuehash.RandomSHA256(), []util.Hash{valuehash.RandomSHA256()}))
		case p.maj:
			ivp.SetMajority(isaac.NewINITBallotFact(point.Point, valuehash.RandomSHA256(), valuehash.RandomSHA256(), nil))
		}

		ivp.SetThreshold(base.Threshold(67))
		ivp.Finish()
		vp = ivp
	default:
		avp := isaac.NewACCEPTVoteproof(point.Point)
		if p.maj {
			avp.SetMajority(isaac.NewACCEPTBallotFact(point.Point, valuehash.RandomSHA256(), valuehash.RandomSHA256(), nil))
		}

		avp.SetThreshold(base.Threshold(67))
		avp.Finish()
		vp = avp
	}

	return c06Cand{p: p, lp: lp, vp: vp}
}

func c06Run(r *simkit.Run) {
	target := r.Draw("object", 0, 1) // 0 Ballotbox last point, 1 LastVoteproofsHandler
	nsetters := r.Draw("setters", 1, 5)
	nupdates := r.Draw("updates_per_setter", 1, 8)
	baseH := base.Height(33)

	plans := make([][]c06Cand, nsetters)
	for i := range plans {
		for j := 0; j < nupdates; j++ {
			plans[i] = append(plans[i], c06GenCand(r, baseH))
		}
	}

	var (
		box *isaacstates.Ballotbox
		lvh *isaac.LastVoteproofsHandler
	)

	if target == 0 {
		box = isaacstates.NewBallotbox(common.Local(0).Address(), func() base.Threshold { return base.Threshold(67) },
			func(base.Height) (base.Suffrage, bool, error) { return nil, false, nil })
	} else {
		lvh = isaac.NewLastVoteproofsHandler()
	}

	current := func() pos {
		if target == 0 {
			return posOfLastPoint(box.LastPoint())
		}

		return posOfVoteproof(lvh.Last().Cap())
	}

	last := pos{zero: true}
	taken := map[pos]int{}
	steppedBack := false

	var history []string

	observe := func() {
		c := current()
		if c == last {
			return
		}

		r.Checked()
		history = append(history, fmt.Sprintf("%s -> %s", last, c))

		if !last.zero && !c.zero && c.height == last.height && (c.round < last.round || (c.round == last.round && c.stage.Compare(last.stage) < 0)) {
			steppedBack = true
		}

		if why, bad := illegalMove(last, c); bad {
			extra := ""
			if lvh != nil {
				l := lvh.Last()
				extra = fmt.Sprintf(" [store now: init=%s accept=%s]", posOfVoteproof(l.INIT()), posOfVoteproof(l.ACCEPT()))
			}

			r.Fail("illegal-move", why, "the position moved %s -> %s (%s); history: %v%s", last, c, why, history, extra)
		}

		// the same position is never taken twice (a majority replacing a non-majority is a different position)
		if !c.zero {
			taken[c]++
			if taken[c] > 1 {
				sig := "same-five-components"
				if steppedBack {
					// the only way back is the suffrage-confirm step the statement allows; going forward again re-takes positions
					sig = "retaken-after-suffrage-confirm-step-back"
				}

				r.Fail("position-taken-twice", sig, "position %s was taken a second time; history: %v", c, history)
			}
		}

		last = c

		// lower heights are always rejected, for ballots and for voteproofs
		if !c.zero && c.height > baseH-1 {
			for _, st := range []base.Stage{base.StageINIT, base.StageACCEPT} {
				for _, sc := range []bool{false, true} {
					if sc && st != base.StageINIT {
						continue
					}

					probe := base.NewStagePoint(base.NewPoint(c.height-1, base.Round(2)), st)

					lp, _ := isaac.NewLastPoint(base.NewStagePoint(base.NewPoint(c.height, c.round), c.stage), c.maj, c.sc)
					if isaac.IsNewBallot(lp, probe, sc) {
						r.Fail("lower-height-accepted", "ballot", "at position %s a ballot for %v (sc=%v) is judged new", c, probe, sc)
					}

					if isaac.IsNewVoteproofbyPoint(lp, probe, true, sc) {
						r.Fail("lower-height-accepted", "voteproof", "at position %s a majority voteproof for %v (sc=%v) is judged new", c, probe, sc)
					}
				}
			}
		}
	}

	for i := range plans {
		i := i

		r.Go(fmt.Sprintf("setter%d", i), func() {
			for _, c := range plans[i] {
				var ok bool

				r.Event(fmt.Sprintf("s%d begins set %s", i, c.p))

				if target == 0 {
					if r.Chance(1, 2) {
						ok = box.SetLastPoint(c.lp)
					} else {
						ok = box.SetLastPointFromVoteproof(c.vp)
					}
				} else {
					if lvh.IsNew(c.vp) {
						r.Probe("isnew_true")
					}

					ok = lvh.Set(c.vp)
				}

				r.Event(fmt.Sprintf("s%d set %s -> %v", i, c.p, ok))
				r.ForceYield("after-set")
			}
		})
	}

	r.Sched(simkit.SchedOpts{MaxSteps: 200000, Stick: r.DrawStick(), Invariant: observe})
	r.Try(observe)

	if r.Unfinished() {
		r.Fail("liveness", "lastpoint", "setters did not finish")
	}

	r.Op("object=%d history=%v", target, history)
}

func init() {
	simkit.Register(&simkit.Harness{
		ID:          "C06",
		Run:         c06Run,
		Real:        []string{"isaac.LastPoint.Before / IsNewBallot / IsNewVoteproofbyPoint", "isaacstates.Ballotbox.SetLastPoint / SetLastPointFromVoteproof / LastPoint", "isaac.LastVoteproofsHandler.Set / IsNew / Last"},
		Stub:        []string{},
		Rule:        "each run draws the object (ballotbox last point or last-voteproofs store), 1-5 concurrent setters x 1-8 updates with positions from the domain height 33..36 x round 0..2 x INIT/ACCEPT x majority x suffrage-confirm (duplicates and stale updates are frequent); after every kernel step the position is read from the object and every change is judged by an executable form of the statement: never a lower height, an earlier round/stage only for a suffrage-confirm result over a non-majority, no position taken twice; at every position lower-height ballots and voteproofs must be judged not new. distinct = event-log hash",
		Assumptions: []string{"LastVoteproofsHandler.ForceSetLast is not part of the workload: it is the explicit override used when the node re-synchronises", "a position is the five-tuple of the statement; the position is read from the object, not from return values"},
	})
}
