package neth

import (
	"fmt"
	"net"
	"sort"
	"strings"

	"github.com/spikeekips/mitum/network/quicmemberlist"
	"github.com/spikeekips/mitum/simkit"
	"github.com/spikeekips/mitum/vh/common"
)

type c37Addr struct {
	node int
	n    int
	udp  *net.UDPAddr
}

func (a c37Addr) String() string { return fmt.Sprintf("node%d/addr%d", a.node, a.n) }

func c37Run(r *simkit.Run) {
	nnodes := r.Draw("nodes", 1, 3)
	naddrs := r.Draw("addrs_per_node", 1, 3)
	mode := r.Draw("clients_mode", 0, 2) // 0 one client; 1 concurrent clients on disjoint addresses; 2 concurrent clients on the same addresses
	concurrent := mode > 0

	var addrs []c37Addr

	for n := 0; n < nnodes; n++ {
		for a := 0; a < naddrs; a++ {
			addrs = append(addrs, c37Addr{node: n, n: a, udp: &net.UDPAddr{IP: net.IPv4(10, 0, byte(n), byte(a+1)), Port: 4000 + a}})
		}
	}

	pool := quicmemberlist.NewVerifMembersPool()

	// the memberlist name of a member: unique per join, or one name per address that survives re-joins (launch uses
	// the id of the local storage as the name, which outlives a change of the node address)
	stableNames := r.Flag("stable_member_names")

	// an address may come back under another node (a node that was given a new address and key re-joins from the
	// same host and port)
	moving := nnodes > 1 && r.Flag("addresses_move_between_nodes")

	labels := map[string]string{} // publish -> "<addr>-gen<g>", the identity of one join
	nodeOf := map[int]int{}       // generation -> node it joined under

	newMember := func(a c37Addr, gen, node int) quicmemberlist.Member {
		nd := common.Local(node)

		name := fmt.Sprintf("%s-gen%d", a, gen)
		publish := fmt.Sprintf("10.%d.%d.%d:%d", node, a.node, a.n+1, 1000+gen)
		labels[publish] = name

		if stableNames {
			name = a.String()
		}

		m, err := quicmemberlist.NewMember(name, a.udp, nd.Address(), nd.Publickey(), publish, true)
		if err != nil {
			panic(err)
		}

		return m
	}

	label := func(m quicmemberlist.Member) string {
		if l, ok := labels[m.Publish().Addr().String()]; ok {
			return l
		}

		return "unknown-member(" + m.Name() + " " + m.Publish().String() + ")"
	}

	// model: which addresses are present, and with which generation
	present := map[int]int{} // addr index -> generation (name)

	type step struct {
		kind int // 0 join, 1 leave, 2 lookups
		a    int
		node int // the node a join is made under
	}

	gen := 0

	check := func(where string) {
		r.Checked()

		for i, a := range addrs {
			g, is := present[i]

			if pool.Exists(a.udp) != is {
				r.Fail("presence", "exists", "%s: Exists(%s)=%v but the member is joined=%v", where, a, !is, is)
			}

			m, found := pool.Get(a.udp)

			switch {
			case is && !found:
				r.Fail("lookup-by-address", "present-member-not-found", "%s: Get(%s) reports not found for a present member (returned member nil=%v)", where, a, m == nil)
			case !is && found:
				r.Fail("lookup-by-address", "absent-member-found", "%s: Get(%s) reports found for a member that is not present", where, a)
			case is && label(m) != fmt.Sprintf("%s-gen%d", a, g):
				r.Fail("lookup-by-address", "stale-member", "%s: Get(%s) returned %q, the present member is gen%d", where, a, label(m), g)
			case is && !m.Address().Equal(common.Local(nodeOf[g]).Address()):
				r.Fail("lookup-by-address", "stale-member", "%s: Get(%s) returned a member of node %s, the present member joined under node%d", where, a, m.Address(), nodeOf[g])
			}
		}

		n := 0

		pool.Traverse(func(quicmemberlist.Member) bool { n++; return true })

		if n != len(present) || pool.Len() != len(present) {
			r.Fail("presence", "count", "%s: %d members traversed, Len()=%d, but %d are present", where, n, pool.Len(), len(present))
		}

		for nd := 0; nd < nnodes; nd++ {
			var want []string

			for i, a := range addrs {
				if g, is := present[i]; is && nodeOf[g] == nd {
					want = append(want, fmt.Sprintf("%s-gen%d", a, g))
				}
			}

			sort.Strings(want)

			var got []string
			for _, m := range pool.NodeMembers(common.Local(nd).Address()) {
				got = append(got, label(m))
			}

			sort.Strings(got)

			if strings.Join(got, ",") != strings.Join(want, ",") {
				sig := "differs"

				dup := map[string]bool{}
				for _, g := range got {
					if dup[g[:strings.Index(g, "-gen")]] {
						sig = "duplicate-address-in-node-list"
					}

					dup[g[:strings.Index(g, "-gen")]] = true
				}

				if sig == "differs" && len(got) < len(want) {
					sig = "present-member-missing-from-node-list"
				}

				r.Fail("per-node-list", sig, "%s: node%d's member list is %v, the present members of that node are %v", where, nd, got, want)
			}

			if l := pool.MembersLen(common.Local(nd).Address()); l != len(want) {
				r.Fail("per-node-list", "memberslen", "%s: MembersLen(node%d)=%d, %d present", where, nd, l, len(want))
			}
		}
	}

	apply := func(who string, s step) {
		a := addrs[s.a]

		switch s.kind {
		case 0:
			gen++
			g := gen
			nodeOf[g] = s.node
			_, was := present[s.a]
			added := pool.Set(newMember(a, g, s.node))
			present[s.a] = g
			r.Op("%s join %s gen%d under node%d -> added=%v", who, a, g, s.node, added)

			if s.node != a.node {
				r.Probe("address_joined_under_another_node")
			}

			if !concurrent && added == was {
				r.Fail("presence", "set-return", "Set(%s) returned added=%v but the member was present=%v", a, added, was)
			}
		case 1:
			_, was := present[s.a]
			removed, err := pool.Remove(a.udp)
			delete(present, s.a)
			r.Op("%s leave %s -> removed=%v", who, a, removed)

			if err != nil || (!concurrent && removed != was) {
				r.Fail("presence", "remove-return", "Remove(%s) returned (%v,%v) but the member was present=%v", a, removed, err, was)
			}
		}
	}

	genSteps := func(n int, only []int) []step {
		steps := make([]step, n)
		for i := range steps {
			steps[i] = step{kind: []int{0, 0, 1}[r.Choose(3)], a: only[r.Choose(len(only))]}
			steps[i].node = addrs[steps[i].a].node

			if moving && r.Chance(1, 3) {
				steps[i].node = r.Choose(nnodes)
			}
		}

		return steps
	}

	all := make([]int, len(addrs))
	for i := range all {
		all[i] = i
	}

	if !concurrent {
		steps := genSteps(r.Draw("steps", 1, 14), all)
		r.Go("client", func() {
			for i, s := range steps {
				apply("c0", s)
				check(fmt.Sprintf("after step %d", i))
			}
		})
		r.Sched(simkit.SchedOpts{MaxSteps: 2000000})

		return
	}

	// concurrent clients work on disjoint addresses (so the model is independent of the order) that may belong to the same node
	nclients := r.Draw("clients", 2, 3)
	parts := make([][]int, nclients)

	for i := range addrs {
		parts[i%nclients] = append(parts[i%nclients], i)
	}

	if mode == 2 { // everybody works on every address: joins, re-joins and leaves of one address race
		for c := range parts {
			parts[c] = all
		}
	}

	for c := 0; c < nclients; c++ {
		c := c
		if len(parts[c]) == 0 {
			continue
		}

		steps := genSteps(r.Draw("steps", 1, 6), parts[c])
		r.Go(fmt.Sprintf("client%d", c), func() {
			for _, s := range steps {
				apply(fmt.Sprintf("c%d", c), s)
			}
		})
	}

	r.Sched(simkit.SchedOpts{MaxSteps: 2000000, Stick: r.DrawStick()})

	if mode == 2 {
		// which member of an address is left depends on the order of the racing calls: the address table itself is
		// taken as the outcome (it must name a member that was joined), and everything else - lookups, traversal,
		// lengths, per-node lists - must be consistent with it
		r.Do("outcome", func() {
			for k := range present {
				delete(present, k)
			}

			for i, a := range addrs {
				m, found := pool.Get(a.udp)
				if !found {
					continue
				}

				var g int

				l := label(m)

				if i := strings.Index(l, "-gen"); i < 0 || !strings.HasPrefix(l, a.String()+"-gen") {
					r.Fail("lookup-by-address", "foreign-member", "after racing joins/leaves Get(%s) returned %q, which was never joined under that address", a, l)
				} else if _, err := fmt.Sscanf(l[i:], "-gen%d", &g); err != nil || g < 1 || g > gen {
					r.Fail("lookup-by-address", "foreign-member", "after racing joins/leaves Get(%s) returned %q, which was never joined under that address", a, l)
				}

				present[i] = g
			}
		})
		r.Probe("same_address_race")
	}

	r.Do("final-check", func() { check("after all clients finished") })
}

func init() {
	simkit.Register(&simkit.Harness{
		ID:          "C37",
		Run:         c37Run,
		Real:        []string{"quicmemberlist.membersPool (Set, Remove, Get, Exists, MembersLen, Len, Traverse, per-node lists)", "util.ShardedMap"},
		Stub:        []string{"verif-tagged exported wrapper around the unexported pool (scratch copy only)", "memberlist gossip itself is not run"},
		Rule:        "each run draws 1-3 nodes with 1-3 addresses each, whether memberlist names are unique per join or stable per address, whether an address may re-join under another node, and a history of joins, re-joins and leaves: sequentially (the whole table is compared with a presence model after every step) by 2-3 concurrent clients working on disjoint addresses of possibly the same node (compared with the model at quiescence), or by 2-3 concurrent clients racing on the same addresses (the address table is taken as the outcome; lookups, traversal, lengths and per-node lists must be consistent with it). distinct = event-log hash",
		Assumptions: []string{"concurrent clients use disjoint addresses so that the expected table does not depend on the interleaving"},
	})
}
