package neth

import (
	"bytes"
	"context"
	"fmt"
	"io"

	"github.com/pkg/errors"
	"github.com/spikeekips/mitum/network/quicstream"
	quicstreamheader "github.com/spikeekips/mitum/network/quicstream/header"
	"github.com/spikeekips/mitum/simkit"
	"github.com/spikeekips/mitum/util"
	"github.com/spikeekips/mitum/util/encoder"
	jsonenc "github.com/spikeekips/mitum/util/encoder/json"
	"github.com/spikeekips/mitum/util/hint"
)

var c30ReqHint = hint.MustNewHint("verif-request-header-v0.0.1")

type c30Req struct {
	quicstreamheader.BaseRequestHeader
	ID string
}

func (c30Req) QUICStreamHeader() {}

func (h c30Req) MarshalJSON() ([]byte, error) {
	return util.MarshalJSON(struct {
		quicstreamheader.BaseHeaderJSONMarshaler
		ID string `json:"id"`
	}{
		BaseHeaderJSONMarshaler: h.BaseHeader.JSONMarshaler(),
		ID:                      h.ID,
	})
}

func (h *c30Req) UnmarshalJSON(b []byte) error {
	var u struct {
		ID string `json:"id"`
	}

	if err := util.UnmarshalJSON(b, &u); err != nil {
		return err
	}

	if err := util.UnmarshalJSON(b, &h.BaseRequestHeader); err != nil {
		return err
	}

	h.ID = u.ID

	return nil
}

var c30Prefix = quicstream.HashPrefix("verif-handler")

func c30Encs() (*encoder.Encoders, encoder.Encoder) {
	enc := jsonenc.NewEncoder()
	encs := encoder.NewEncoders(enc, enc)

	if err := encs.AddDetail(encoder.DecodeDetail{Hint: c30ReqHint, Instance: c30Req{}}); err != nil {
		panic(err)
	}

	if err := encs.AddDetail(encoder.DecodeDetail{Hint: quicstreamheader.DefaultResponseHeaderHint, Instance: quicstreamheader.DefaultResponseHeader{}}); err != nil {
		panic(err)
	}

	return encs, enc
}

type c30Body struct {
	kind quicstreamheader.BodyType
	data []byte
}

func c30GenBody(r *simkit.Run, tag byte) c30Body {
	switch r.Choose(4) {
	case 0:
		return c30Body{kind: quicstreamheader.EmptyBodyType}
	case 1:
		return c30Body{kind: quicstreamheader.FixedLengthBodyType, data: bytes.Repeat([]byte{tag}, r.Choose(600))}
	case 2:
		return c30Body{kind: quicstreamheader.FixedLengthBodyType} // fixed length 0
	default:
		return c30Body{kind: quicstreamheader.StreamBodyType, data: bytes.Repeat([]byte{tag}, r.Choose(600))}
	}
}

// what one side saw
type c30Seen struct {
	reqID     string
	prefixOK  bool
	bodyKind  quicstreamheader.BodyType
	bodyLen   uint64
	body      []byte
	resOK     bool
	resErr    string
	err       error
	done      bool
	gotHeader bool
}

func c30Run(r *simkit.Run) {
	r.PanicIsViolation()

	if r.Draw("mode", 0, 3) == 3 {
		c30Fuzz(r)

		return
	}

	encs, enc := c30Encs()
	maxChunk := []int{1, 2, 7, 64, 4096}[r.Draw("max_chunk", 0, 4)]
	c2h := newPipe(r, "c2h", maxChunk)
	h2c := newPipe(r, "h2c", maxChunk)

	req := c30Req{BaseRequestHeader: quicstreamheader.NewBaseRequestHeader(c30ReqHint, c30Prefix), ID: fmt.Sprintf("req-%d", r.Choose(1000))}
	reqBody := c30GenBody(r, 'q')
	resOK := r.Chance(1, 2)
	resErrText := ""

	if !resOK && r.Chance(1, 2) {
		resErrText = fmt.Sprintf("handler failed %d", r.Choose(100))
	}

	resBody := c30GenBody(r, 's')
	if reqBody.kind == quicstreamheader.StreamBodyType {
		// a stream body closes the client's writing side; the handler can still answer
		_ = resBody
	}

	fault := r.Draw("fault", 0, 3) // 0 none, 1 cut c2h, 2 flip in c2h, 3 cut/flip in h2c

	headerb, _ := enc.Marshal(req)
	hintLen := len(enc.Hint().Bytes())
	// offsets in c2h of the 8-byte length fields; hostile values are kept below 16 MiB by leaving their top 5 bytes alone
	lengthFields := []int{32 + 1, 32 + 1 + 8 + hintLen}
	c2hHeadLen := 32 + 1 + 8 + hintLen + 8 + len(headerb)

	pickFlip := func(p *pipe, total int, fields []int) {
		for tries := 0; tries < 20; tries++ {
			pos := r.Choose(total)
			ok := true

			for _, f := range fields {
				if pos >= f && pos < f+5 {
					ok = false
				}
			}

			if ok {
				p.flipAt = pos
				p.flipBit = uint(r.Choose(8))

				return
			}
		}
	}

	switch fault {
	case 1:
		c2h.cutAt = r.Choose(c2hHeadLen + 12 + len(reqBody.data))
	case 2:
		fields := append([]int{}, lengthFields...)
		if reqBody.kind == quicstreamheader.FixedLengthBodyType {
			fields = append(fields, c2hHeadLen+2)
		}

		pickFlip(c2h, c2hHeadLen+2+len(reqBody.data), fields)
	case 3:
		if r.Chance(1, 2) {
			h2c.cutAt = r.Choose(120 + len(resBody.data))
		} else {
			pickFlip(h2c, 60, []int{1, 1 + 8 + hintLen})
		}
	}

	clean := fault == 0
	ctx := context.Background()

	var handler, client c30Seen

	// ---- handler side: what the quicstream server does (read the prefix), then the broker ----
	r.Go("handler", func() {
		defer func() { handler.done = true }()

		var prefix quicstream.HandlerPrefix
		if _, err := util.EnsureRead(ctx, c2h, prefix[:]); err != nil && !errors.Is(err, io.EOF) {
			handler.err = err
			_ = h2c.Close()

			return
		}

		handler.prefixOK = prefix == c30Prefix

		broker := quicstreamheader.NewHandlerBroker(encs, nil, c2h, h2c)
		defer func() { _ = h2c.Close() }()

		h, err := broker.ReadRequestHead(ctx)
		if err != nil {
			handler.err = err

			return
		}

		handler.gotHeader = true

		if rh, ok := h.(c30Req); ok {
			handler.reqID = rh.ID
		}

		bt, bl, body, _, _, err := broker.ReadBody(ctx)
		if err != nil {
			handler.err = err

			return
		}

		handler.bodyKind, handler.bodyLen = bt, bl

		if body != nil {
			b, err := io.ReadAll(body)
			if err != nil {
				handler.err = err

				return
			}

			handler.body = b
		}

		var herr error
		if resErrText != "" {
			herr = errors.New(resErrText)
		}

		if err := broker.WriteResponseHead(ctx, quicstreamheader.NewDefaultResponseHeader(resOK, herr)); err != nil {
			handler.err = err

			return
		}

		if err := broker.WriteBody(ctx, resBody.kind, uint64(len(resBody.data)), bytes.NewReader(resBody.data)); err != nil {
			handler.err = err
		}
	})

	// ---- client side ----
	r.Go("client", func() {
		defer func() { client.done = true }()

		broker := quicstreamheader.NewClientBroker(encs, enc, h2c, c2h)

		if err := broker.WriteRequestHead(ctx, req); err != nil {
			client.err = err
			_ = c2h.Close()

			return
		}

		if err := broker.WriteBody(ctx, reqBody.kind, uint64(len(reqBody.data)), bytes.NewReader(reqBody.data)); err != nil {
			client.err = err
			_ = c2h.Close()

			return
		}

		_, res, err := broker.ReadResponseHead(ctx)
		if err != nil {
			client.err = err
			_ = c2h.Close()

			return
		}

		client.gotHeader = true
		client.resOK = res.OK()

		if res.Err() != nil {
			client.resErr = res.Err().Error()
		}

		bt, bl, body, _, _, err := broker.ReadBody(ctx)
		if err != nil {
			client.err = err
			_ = c2h.Close()

			return
		}

		client.bodyKind, client.bodyLen = bt, bl

		if body != nil {
			b, err := io.ReadAll(body)
			if err != nil {
				client.err = err
			}

			client.body = b
		}

		_ = c2h.Close()
	})

	r.Sched(simkit.SchedOpts{MaxSteps: 400000, Stick: r.DrawStick()})

	r.Op("req body kind=%v len=%d; res ok=%v err=%q body kind=%v len=%d; fault=%d chunk<=%d; handler err=%v client err=%v",
		reqBody.kind, len(reqBody.data), resOK, resErrText, resBody.kind, len(resBody.data), fault, maxChunk, handler.err != nil, client.err != nil)

	if !handler.done || !client.done {
		// a cut stream may leave a side waiting for bytes that never come: closing both directions must release it
		_ = c2h.Close()
		_ = h2c.Close()
		r.Sched(simkit.SchedOpts{MaxSteps: 400000})

		if !handler.done || !client.done {
			r.Fail("liveness", "broker", "a broker side is still blocked after both directions were closed (handler done=%v, client done=%v)", handler.done, client.done)
		}

		if clean {
			r.Fail("roundtrip", "blocked", "clean exchange did not complete without closing the streams (handler done=%v client done=%v)", handler.done, client.done)
		}
	}

	r.Checked()

	if !clean {
		return
	}

	// clean stream: the other side read exactly what was written
	sig := fmt.Sprintf("req-body-%v/res-body-%v", reqBody.kind, resBody.kind)

	switch {
	case handler.err != nil:
		r.Fail("roundtrip", sig+":handler-error", "clean exchange: handler side failed: %v", handler.err)
	case client.err != nil:
		r.Fail("roundtrip", sig+":client-error", "clean exchange: client side failed: %v", client.err)
	case !handler.prefixOK || handler.reqID != req.ID:
		r.Fail("roundtrip", sig+":request-head", "handler read request id %q prefix ok=%v, client wrote %q", handler.reqID, handler.prefixOK, req.ID)
	case handler.bodyKind != reqBody.kind || !bytes.Equal(handler.body, reqBody.data) ||
		(reqBody.kind == quicstreamheader.FixedLengthBodyType && handler.bodyLen != uint64(len(reqBody.data))):
		r.Fail("roundtrip", sig+":request-body", "handler read body kind %v length %d (%d bytes), client wrote kind %v with %d bytes", handler.bodyKind, handler.bodyLen, len(handler.body), reqBody.kind, len(reqBody.data))
	case client.resOK != resOK || client.resErr != resErrText:
		r.Fail("roundtrip", sig+":response-head", "client read response ok=%v err=%q, handler wrote ok=%v err=%q", client.resOK, client.resErr, resOK, resErrText)
	case client.bodyKind != resBody.kind || !bytes.Equal(client.body, resBody.data) ||
		(resBody.kind == quicstreamheader.FixedLengthBodyType && client.bodyLen != uint64(len(resBody.data))):
		r.Fail("roundtrip", sig+":response-body", "client read body kind %v length %d (%d bytes), handler wrote kind %v with %d bytes", client.bodyKind, client.bodyLen, len(client.body), resBody.kind, len(resBody.data))
	}
}

type nopCloser struct{ io.Writer }

func (nopCloser) Close() error { return nil }

// c30Fuzz feeds a raw byte stream straight into the read side of a broker.
func c30Fuzz(r *simkit.Run) {
	encs, enc := c30Encs()
	p := newPipe(r, "fuzz", []int{1, 3, 16, 4096}[r.Draw("max_chunk", 0, 3)])
	sink := newPipe(r, "sink", 4096)

	side := r.Draw("side", 0, 1)

	var raw []byte

	mutate := r.Flag("mutate_valid_message")
	body := c30GenBody(r, 'f')
	okflag := r.Chance(1, 2)

	if mutate {
		// a well-formed message for that side, then a few byte mutations, an insertion or a truncation
		var buf bytes.Buffer

		w := nopCloser{&buf}

		// (written by a task: the brokers spawn helper goroutines the root must not wait for)
		r.Do("write-valid-message", func() {
			if side == 0 {
				cb := quicstreamheader.NewClientBroker(encs, enc, &bytes.Buffer{}, w)
				_ = cb.WriteRequestHead(context.Background(), c30Req{BaseRequestHeader: quicstreamheader.NewBaseRequestHeader(c30ReqHint, c30Prefix), ID: "fuzz"})
				_ = cb.WriteBody(context.Background(), body.kind, uint64(len(body.data)), bytes.NewReader(body.data))
				raw = buf.Bytes()[32:] // the server strips the prefix before the broker reads
			} else {
				hb := quicstreamheader.NewHandlerBroker(encs, enc, &bytes.Buffer{}, w)
				_ = hb.WriteResponseHead(context.Background(), quicstreamheader.NewDefaultResponseHeader(okflag, nil))
				_ = hb.WriteBody(context.Background(), body.kind, uint64(len(body.data)), bytes.NewReader(body.data))
				raw = buf.Bytes()
			}
		})

		raw = append([]byte(nil), raw...)

		for k := r.Choose(4); k > 0 && len(raw) > 0; k-- {
			pos := r.Choose(len(raw))

			switch r.Choose(3) {
			case 0:
				raw[pos] ^= byte(1 << uint(r.Choose(8)))
			case 1:
				raw = append(raw[:pos], append([]byte{byte(r.Choose(256))}, raw[pos:]...)...)
			default:
				raw = raw[:pos]
			}
		}

		// keep hostile length fields small: zero the top 5 bytes of every 8-byte window that could be read as a length
		// (cheap over-approximation: only when the mutation produced a byte > 0 there)
		_ = raw
	} else {
		// structured-ish garbage: valid type bytes and small length fields are likely, so parsing gets deep
		n := r.Draw("fuzz_len", 0, 200)
		raw = make([]byte, 0, n)

		for len(raw) < n {
			switch r.Choose(6) {
			case 0:
				raw = append(raw, byte(1+r.Choose(3)))
			case 1:
				raw = append(raw, 0, 0, 0, 0, 0, byte(r.Choose(2)), byte(r.Choose(4)), byte(r.Choose(256)))
			case 2:
				raw = append(raw, enc.Hint().Bytes()...)
			case 3:
				raw = append(raw, []byte(`{"_hint":"verif-request-header-v0.0.1","id":"x"}`)...)
			case 4:
				raw = append(raw, []byte(`{"_hint":"quicstream-default-response-header-v0.0.1","ok":true}`)...)
			default:
				raw = append(raw, byte(r.Choose(256)))
			}
		}
	}

	// generator cap on hostile length fields (stated in the evidence): the two
	// lengthed fields the parser will reach (encoder hint, header) never spell
	// a length between 16 MiB and 2 GiB, the only range in which the code
	// allocates that much before it notices that the stream is short.
	for f, pos := 0, 1; f < 2 && pos+8 <= len(raw); f++ {
		v := uint64(0)
		for i := 0; i < 8; i++ {
			v = v<<8 | uint64(raw[pos+i])
		}

		if v > 1<<24 && v <= 1<<31 {
			raw[pos+4] = 0
			v &= 0xffffff
		}

		if v > uint64(len(raw)) {
			break
		}

		pos += 8 + int(v)
	}

	ctx := context.Background()
	done := false

	r.Go("feeder", func() {
		_, _ = p.Write(raw)
		_ = p.Close()
	})

	r.Probe("fuzz_runs")

	r.Go("reader", func() {
		defer func() { done = true }()

		if side == 0 {
			b := quicstreamheader.NewHandlerBroker(encs, nil, p, sink)

			if _, err := b.ReadRequestHead(ctx); err != nil {
				if r.KeepLog {
					r.Event("fuzz head error: " + err.Error())
				}

				return
			}

			r.Probe("fuzz_request_head_parsed")

			if _, _, body, _, _, err := b.ReadBody(ctx); err == nil && body != nil {
				_, _ = io.ReadAll(body)
				r.Probe("fuzz_body_parsed")
			}

			return
		}

		b := quicstreamheader.NewClientBroker(encs, enc, p, sink)

		if _, _, err := b.ReadResponseHead(ctx); err != nil {
			return
		}

		r.Probe("fuzz_response_head_parsed")

		if _, _, body, _, _, err := b.ReadBody(ctx); err == nil && body != nil {
			_, _ = io.ReadAll(body)
			r.Probe("fuzz_body_parsed")
		}
	})

	r.Sched(simkit.SchedOpts{MaxSteps: 400000, Stick: 8})
	r.Checked()
	r.Op("fuzz %d bytes into side %d", len(raw), side)

	if !done {
		r.Fail("liveness", "fuzz", "the reading side did not return although the stream was closed")
	}
}

func init() {
	simkit.Register(&simkit.Harness{
		ID:          "C30",
		Run:         c30Run,
		Real:        []string{"quicstreamheader.ClientBroker", "quicstreamheader.HandlerBroker", "baseBroker read/write of heads and bodies", "util.EnsureRead/ReadLengthed", "JSON encoder (encoding/json fallback)"},
		Stub:        []string{"transport: a simulated duplex stream (two in-memory pipes with tape-chosen chunking, cut after a byte budget, one bit flipped at an offset); QUIC itself is not run"},
		Rule:        "each run draws a request head, a request body and a response body of every kind (empty, fixed length incl. 0, stream), a response head (ok / error text), chunking 1..4096 bytes and one fault (none, client->handler stream cut, bit flip in client->handler, cut or flip in handler->client); client and handler brokers run as tasks on the two ends. Clean stream: the other side reads exactly what was written. Any stream: an error or a message, never a panic, and no side stays blocked once both directions are closed. A fourth of the runs feed a structured-garbage byte stream straight into ReadRequestHead/ReadBody or ReadResponseHead/ReadBody. distinct = event-log hash",
		Assumptions: []string{"hostile length fields are kept below 16 MiB by the generator (the code accepts up to 2 GiB per lengthed field; allocation size is not part of this property)"},
	})
}
