// Package neth holds the network-group harnesses (stream header protocol).
package neth

import (
	"io"
	"sync"

	"github.com/pkg/errors"
	"github.com/spikeekips/mitum/simkit"
)

// pipe is one direction of a simulated stream: bytes written at one end come
// out of the other in tape-chosen chunks; the stream can be cut after a byte
// budget, have one bit flipped at an offset, and be closed by the writer.
type pipe struct {
	r        *simkit.Run
	mu       sync.Mutex
	buf      []byte
	written  int
	closed   bool
	signal   chan struct{}
	maxChunk int
	cutAt    int // stream ends (reader sees EOF, writer gets an error) after this many bytes (-1: never)
	flipAt   int // flip one bit of the byte at this offset (-1: never)
	flipBit  uint
	name     string
}

var errPipeClosed = errors.New("simulated stream closed")

func newPipe(r *simkit.Run, name string, maxChunk int) *pipe {
	return &pipe{r: r, name: name, signal: make(chan struct{}, 1), maxChunk: maxChunk, cutAt: -1, flipAt: -1}
}

func (p *pipe) wake() {
	select {
	case p.signal <- struct{}{}:
	default:
	}
}

func (p *pipe) Write(b []byte) (int, error) {
	p.r.ForceYield(p.name + ".Write")

	p.mu.Lock()
	defer p.mu.Unlock()

	if p.closed {
		return 0, errPipeClosed
	}

	n := len(b)
	if p.cutAt >= 0 && p.written+n > p.cutAt {
		n = p.cutAt - p.written
		if n < 0 {
			n = 0
		}
	}

	for i := 0; i < n; i++ {
		c := b[i]
		if p.written+i == p.flipAt {
			c ^= 1 << p.flipBit
			p.r.Fault("byte_flip")
		}

		p.buf = append(p.buf, c)
	}

	p.written += n

	if n < len(b) {
		p.closed = true
		p.r.Fault("stream_cut")
		p.wake()

		return n, errPipeClosed
	}

	p.wake()

	return n, nil
}

func (p *pipe) Close() error {
	p.mu.Lock()
	p.closed = true
	p.mu.Unlock()
	p.wake()

	return nil
}

func (p *pipe) Read(b []byte) (int, error) {
	for {
		p.r.ForceYield(p.name + ".Read")

		p.mu.Lock()

		if len(p.buf) > 0 {
			n := 1 + p.r.Choose(p.maxChunk)
			if n > len(b) {
				n = len(b)
			}

			if n > len(p.buf) {
				n = len(p.buf)
			}

			copy(b, p.buf[:n])
			p.buf = p.buf[n:]

			var err error
			if p.closed && len(p.buf) == 0 && p.r.Chance(1, 2) {
				err = io.EOF // EOF together with the last bytes
			}

			p.mu.Unlock()

			return n, err
		}

		if p.closed {
			p.mu.Unlock()

			return 0, io.EOF
		}

		p.mu.Unlock()
		<-p.signal
	}
}
