// Package simdisk is the simulated disk under goleveldb: an in-memory
// implementation of goleveldb's storage.Storage that logs every mutating
// operation, can rebuild the disk as it was after any prefix of that log
// (process crash), with the operation at the crash point torn to a prefix
// (torn write), or with everything after each file's last Sync dropped (power
// loss), and can start failing every mutating operation from a given index on
// (I/O error / full disk).
package simdisk

import (
	"bytes"
	"errors"
	"os"
	"sync"

	"github.com/syndtr/goleveldb/leveldb/storage"
)

type OpKind int

const (
	OpCreate OpKind = iota
	OpWrite
	OpSync
	OpRemove
	OpRename
	OpSetMeta
)

func (k OpKind) String() string {
	return [...]string{"create", "write", "sync", "remove", "rename", "setmeta"}[k]
}

type Op struct {
	Kind OpKind
	FD   storage.FileDesc
	To   storage.FileDesc
	Data []byte
}

// ErrInjected is returned by every mutating operation once the failure budget is exhausted.
var ErrInjected = errors.New("simdisk: injected I/O error")

type file struct {
	data   []byte
	synced int
	open   bool
}

// Disk implements storage.Storage.
type Disk struct {
	mu       sync.Mutex
	files    map[storage.FileDesc]*file
	meta     storage.FileDesc
	slock    *lock
	log      []Op
	failFrom int // mutating ops with index >= failFrom fail (-1: never)
	Failed   int // how many operations were refused
	closed   bool
	NoLog    bool
}

type lock struct{ d *Disk }

func (l *lock) Unlock() {
	l.d.mu.Lock()
	defer l.d.mu.Unlock()

	if l.d.slock == l {
		l.d.slock = nil
	}
}

func New() *Disk {
	return &Disk{files: map[storage.FileDesc]*file{}, failFrom: -1}
}

// FailFrom makes every mutating operation with log index >= k fail.
func (d *Disk) FailFrom(k int) {
	d.mu.Lock()
	d.failFrom = k
	d.mu.Unlock()
}

// Heal stops injecting errors.
func (d *Disk) Heal() { d.FailFrom(-1) }

// Len is the number of logged mutating operations.
func (d *Disk) Len() int {
	d.mu.Lock()
	defer d.mu.Unlock()

	return len(d.log)
}

// Ops returns a copy of the log slice header (entries are immutable).
func (d *Disk) Ops() []Op {
	d.mu.Lock()
	defer d.mu.Unlock()

	return d.log[:len(d.log):len(d.log)]
}

// must be called with mu held
func (d *Disk) record(op Op) error {
	if d.failFrom >= 0 && len(d.log) >= d.failFrom {
		d.Failed++

		return ErrInjected
	}

	if !d.NoLog {
		d.log = append(d.log, op)
	}

	return nil
}

func (d *Disk) Lock() (storage.Locker, error) {
	d.mu.Lock()
	defer d.mu.Unlock()

	if d.slock != nil {
		return nil, storage.ErrLocked
	}

	d.slock = &lock{d: d}

	return d.slock, nil
}

func (*Disk) Log(string) {}

func (d *Disk) SetMeta(fd storage.FileDesc) error {
	if !storage.FileDescOk(fd) {
		return storage.ErrInvalidFile
	}

	d.mu.Lock()
	defer d.mu.Unlock()

	if err := d.record(Op{Kind: OpSetMeta, FD: fd}); err != nil {
		return err
	}

	d.meta = fd

	return nil
}

func (d *Disk) GetMeta() (storage.FileDesc, error) {
	d.mu.Lock()
	defer d.mu.Unlock()

	if d.meta.Zero() {
		return storage.FileDesc{}, os.ErrNotExist
	}

	return d.meta, nil
}

func (d *Disk) List(ft storage.FileType) ([]storage.FileDesc, error) {
	d.mu.Lock()
	defer d.mu.Unlock()

	var fds []storage.FileDesc

	for fd := range d.files {
		if fd.Type&ft != 0 {
			fds = append(fds, fd)
		}
	}

	// deterministic order
	for i := 1; i < len(fds); i++ {
		for j := i; j > 0 && (fds[j-1].Num > fds[j].Num || (fds[j-1].Num == fds[j].Num && fds[j-1].Type > fds[j].Type)); j-- {
			fds[j-1], fds[j] = fds[j], fds[j-1]
		}
	}

	return fds, nil
}

type reader struct {
	*bytes.Reader
	d      *Disk
	f      *file
	closed bool
}

func (r *reader) Close() error {
	r.d.mu.Lock()
	defer r.d.mu.Unlock()

	if r.closed {
		return storage.ErrClosed
	}

	r.closed = true
	r.f.open = false

	return nil
}

func (d *Disk) Open(fd storage.FileDesc) (storage.Reader, error) {
	if !storage.FileDescOk(fd) {
		return nil, storage.ErrInvalidFile
	}

	d.mu.Lock()
	defer d.mu.Unlock()

	f, ok := d.files[fd]
	if !ok {
		return nil, os.ErrNotExist
	}

	if f.open {
		return nil, errors.New("simdisk: file still open")
	}

	f.open = true

	return &reader{Reader: bytes.NewReader(append([]byte(nil), f.data...)), d: d, f: f}, nil
}

type writer struct {
	d      *Disk
	fd     storage.FileDesc
	f      *file
	closed bool
}

func (w *writer) Write(p []byte) (int, error) {
	w.d.mu.Lock()
	defer w.d.mu.Unlock()

	if err := w.d.record(Op{Kind: OpWrite, FD: w.fd, Data: append([]byte(nil), p...)}); err != nil {
		return 0, err
	}

	w.f.data = append(w.f.data, p...)

	return len(p), nil
}

func (w *writer) Sync() error {
	w.d.mu.Lock()
	defer w.d.mu.Unlock()

	if err := w.d.record(Op{Kind: OpSync, FD: w.fd}); err != nil {
		return err
	}

	w.f.synced = len(w.f.data)

	return nil
}

func (w *writer) Close() error {
	w.d.mu.Lock()
	defer w.d.mu.Unlock()

	if w.closed {
		return storage.ErrClosed
	}

	w.closed = true
	w.f.open = false

	return nil
}

func (d *Disk) Create(fd storage.FileDesc) (storage.Writer, error) {
	if !storage.FileDescOk(fd) {
		return nil, storage.ErrInvalidFile
	}

	d.mu.Lock()
	defer d.mu.Unlock()

	if f, ok := d.files[fd]; ok && f.open {
		return nil, errors.New("simdisk: file still open")
	}

	if err := d.record(Op{Kind: OpCreate, FD: fd}); err != nil {
		return nil, err
	}

	f := &file{open: true}
	d.files[fd] = f

	return &writer{d: d, fd: fd, f: f}, nil
}

func (d *Disk) Remove(fd storage.FileDesc) error {
	if !storage.FileDescOk(fd) {
		return storage.ErrInvalidFile
	}

	d.mu.Lock()
	defer d.mu.Unlock()

	if _, ok := d.files[fd]; !ok {
		return os.ErrNotExist
	}

	if err := d.record(Op{Kind: OpRemove, FD: fd}); err != nil {
		return err
	}

	delete(d.files, fd)

	return nil
}

func (d *Disk) Rename(oldfd, newfd storage.FileDesc) error {
	if !storage.FileDescOk(oldfd) || !storage.FileDescOk(newfd) {
		return storage.ErrInvalidFile
	}

	if oldfd == newfd {
		return nil
	}

	d.mu.Lock()
	defer d.mu.Unlock()

	f, ok := d.files[oldfd]
	if !ok {
		return os.ErrNotExist
	}

	if err := d.record(Op{Kind: OpRename, FD: oldfd, To: newfd}); err != nil {
		return err
	}

	delete(d.files, oldfd)
	d.files[newfd] = f

	return nil
}

func (d *Disk) Close() error {
	d.mu.Lock()
	d.closed = true
	d.mu.Unlock()

	return nil
}

// CrashMode selects what survives a crash.
type CrashMode int

const (
	// ProcessCrash: every completed operation survives.
	ProcessCrash CrashMode = iota
	// TornWrite: as ProcessCrash, and the operation at the crash index, if it is a Write, is applied to a prefix.
	TornWrite
	// PowerLoss: file contents after each file's last Sync are dropped (file creation, removal, rename and meta are kept in order).
	PowerLoss
)

// RebuildAt returns a new disk in the state after the first k logged
// operations of ops. tornLen is the number of bytes of ops[k] kept in TornWrite mode.
func RebuildAt(ops []Op, k int, mode CrashMode, tornLen int) *Disk {
	d := New()

	apply := func(op Op, limit int) {
		switch op.Kind {
		case OpCreate:
			d.files[op.FD] = &file{}
		case OpWrite:
			if f, ok := d.files[op.FD]; ok {
				data := op.Data
				if limit >= 0 && limit < len(data) {
					data = data[:limit]
				}

				f.data = append(f.data, data...)
			}
		case OpSync:
			if f, ok := d.files[op.FD]; ok {
				f.synced = len(f.data)
			}
		case OpRemove:
			delete(d.files, op.FD)
		case OpRename:
			if f, ok := d.files[op.FD]; ok {
				delete(d.files, op.FD)
				d.files[op.To] = f
			}
		case OpSetMeta:
			d.meta = op.FD
		}
	}

	if k > len(ops) {
		k = len(ops)
	}

	for i := 0; i < k; i++ {
		apply(ops[i], -1)
	}

	if mode == TornWrite && k < len(ops) && ops[k].Kind == OpWrite {
		apply(ops[k], tornLen)
	}

	if mode == PowerLoss {
		for _, f := range d.files {
			f.data = f.data[:f.synced]
		}
	}

	for _, f := range d.files {
		f.synced = len(f.data)
	}

	return d
}

// Clone returns an independent disk with the current contents (a clean restart point).
func (d *Disk) Clone() *Disk {
	d.mu.Lock()
	defer d.mu.Unlock()

	n := New()
	for fd, f := range d.files {
		n.files[fd] = &file{data: append([]byte(nil), f.data...), synced: len(f.data)}
	}

	n.meta = d.meta

	return n
}
