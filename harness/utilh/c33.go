package utilh

import (
	"context"
	"fmt"
	"time"

	"github.com/pkg/errors"
	"github.com/spikeekips/mitum/simkit"
	"github.com/spikeekips/mitum/util"
)

var c33Quanta = []time.Duration{time.Millisecond, 5 * time.Millisecond, 100 * time.Millisecond, time.Second, 3 * time.Second}

type c33Job struct {
	fails    bool
	sleep    time.Duration
	yields   int
	obeysCtx bool

	accepted bool
	starts   int
	startSeq int64
	endSeq   int64
	err      error
	errSeq   int64
}

func c33GenJobs(r *simkit.Run, n int, failDen int) []*c33Job {
	jobs := make([]*c33Job, n)
	for i := range jobs {
		j := &c33Job{yields: r.Choose(3), obeysCtx: r.Chance(1, 3)}
		if failDen > 0 && r.Chance(1, failDen) {
			j.fails = true
			j.err = errors.Errorf("job %d failed", i)
		}

		if r.Chance(1, 4) {
			j.sleep = []time.Duration{time.Millisecond, 20 * time.Millisecond, time.Second}[r.Choose(3)]
		}

		jobs[i] = j
	}

	return jobs
}

func (j *c33Job) run(r *simkit.Run, ctx context.Context) error {
	j.starts++
	j.startSeq = r.Seq()

	for i := 0; i < j.yields; i++ {
		r.ForceYield("job")
	}

	if j.sleep > 0 {
		if j.obeysCtx {
			select {
			case <-ctx.Done():
			case <-time.After(j.sleep):
			}
		} else {
			time.Sleep(j.sleep)
		}

		r.ForceYield("job-after-sleep")
	}

	j.endSeq = r.Seq()

	if j.fails {
		j.errSeq = j.endSeq

		return j.err
	}

	return nil
}

func c33Run(r *simkit.Run) {
	kind := r.Draw("kind", 0, 3) // 0 BaseJobWorker by hand, 1 RunJobWorker, 2 ErrCallback, 3 BatchWork
	if kind == 3 {
		c33Batch(r)

		return
	}

	n := r.Draw("jobs", 1, 12)
	sem := int64(r.Draw("semsize", 1, 8))
	failDen := []int{0, 0, 6, 3}[r.Draw("fail_density", 0, 3)]
	cancelAt := -1

	if r.Flag("external_cancel") {
		cancelAt = r.Choose(n + 2)
	}

	jobs := c33GenJobs(r, n, failDen)

	errCancel := errors.New("external cancel")
	ctx, cancel := context.WithCancelCause(context.Background())
	r.OnEnd(func() { cancel(nil) })

	var (
		waitErr   error
		waitSeq   int64
		waited    bool
		cancelSeq int64
		cbErrs    []error
		submitted int
	)

	doCancel := func() {
		if cancelSeq == 0 {
			cancelSeq = r.Seq()
			r.Fault("external_cancel")
			cancel(errCancel)
		}
	}

	switch kind {
	case 0:
		wk, err := util.NewBaseJobWorker(ctx, sem)
		if err != nil {
			panic(err)
		}

		r.Go("producer", func() {
			for i := range jobs {
				j := jobs[i]

				if cancelAt == i {
					doCancel()
				}

				err := wk.NewJob(func(ctx context.Context, _ uint64) error { return j.run(r, ctx) })
				j.accepted = err == nil
				submitted++

				if err != nil {
					break
				}
			}

			wk.Done()

			if cancelAt >= len(jobs) {
				doCancel()
			}

			waitErr = wk.Wait()
			waitSeq = r.Seq()
			waited = true
		})
	case 1, 2:
		r.Go("runner", func() {
			f := func(ctx context.Context, i, _ uint64) error {
				j := jobs[i]
				j.accepted = true // RunJobWorker gives no per-job acceptance; a job that starts was accepted

				return j.run(r, ctx)
			}

			if kind == 1 {
				waitErr = util.RunJobWorker(ctx, sem, int64(n), f)
			} else {
				waitErr = util.RunErrCallbackJobWorker(ctx, sem, int64(n), func(err error) { cbErrs = append(cbErrs, err) }, f)
			}

			waitSeq = r.Seq()
			waited = true
		})

		if cancelAt >= 0 {
			r.Go("canceller", func() {
				for i := 0; i < cancelAt; i++ {
					r.ForceYield("canceller")
				}

				doCancel()
			})
		}
	}

	allDone := func() bool {
		if !waited {
			return false
		}

		for _, j := range jobs {
			if j.accepted && j.endSeq == 0 {
				return false
			}
		}

		return true
	}

	r.Sched(simkit.SchedOpts{MaxSteps: 6000, KeepGoing: true, Until: allDone, MaxSim: 30 * time.Minute, Quanta: c33Quanta, Stick: r.DrawStick()})

	r.Op("kind=%d jobs=%d sem=%d cancelAt=%d waitErr=%v", kind, n, sem, cancelAt, waitErr)

	// bounded liveness: no fault is pending, so Wait must have returned and
	// every accepted job must have finished inside the step budget.
	if !allDone() {
		r.Fail("liveness", fmt.Sprintf("kind%d", kind), "worker did not finish within the step/time budget: waited=%v", waited)
	}

	r.Checked()

	var firstErr *c33Job

	for i, j := range jobs {
		if j.starts > 1 || (j.accepted && j.starts != 1) {
			r.Fail("exactly-once", fmt.Sprintf("kind%d", kind), "job %d accepted=%v ran %d times", i, j.accepted, j.starts)
		}

		if !j.accepted && j.starts > 0 {
			r.Fail("exactly-once", fmt.Sprintf("kind%d:ran-but-refused", kind), "job %d was refused but ran", i)
		}

		if j.fails && j.errSeq != 0 && (firstErr == nil || j.errSeq < firstErr.errSeq) {
			firstErr = j
		}
	}

	// Wait returned only after every accepted job finished
	for i, j := range jobs {
		if j.accepted && j.startSeq != 0 && j.startSeq < waitSeq && j.endSeq > waitSeq {
			why := "no-error"

			switch {
			case firstErr != nil && firstErr.errSeq < waitSeq && kind != 2:
				why = "after-job-error"
			case cancelSeq != 0 && cancelSeq < waitSeq:
				why = "after-external-cancel"
			}

			r.Probe("wait_returned_with_running_job")

			if !r.Fail("wait-before-jobs-finished", why, "Wait returned (err=%v) at seq %d while job %d was still running (start %d, end %d)", waitErr, waitSeq, i, j.startSeq, j.endSeq) {
				break
			}
		}
	}

	// the error returned is the first one
	switch {
	case kind == 2:
		// job errors go to the callback, never to Wait
		nfailed := 0
		for _, j := range jobs {
			if j.fails && j.errSeq != 0 {
				nfailed++
			}
		}

		if len(cbErrs) != nfailed {
			r.Fail("error-callback", "count", "%d failed jobs but %d callbacks", nfailed, len(cbErrs))
		}

		if waitErr != nil && !(cancelSeq != 0 && cancelSeq < waitSeq) {
			r.Fail("first-error", "errcallback-returned-error", "ErrCallback worker returned %v", waitErr)
		}
	default:
		errBeforeWait := firstErr != nil && firstErr.errSeq < waitSeq
		cancelBeforeWait := cancelSeq != 0 && cancelSeq < waitSeq

		switch {
		case !errBeforeWait && !cancelBeforeWait:
			if waitErr != nil {
				r.Fail("first-error", "error-without-cause", "Wait returned %v but no job failed and nobody cancelled", waitErr)
			}
		case errBeforeWait && (!cancelBeforeWait || firstErr.errSeq < cancelSeq):
			if !errors.Is(waitErr, firstErr.err) {
				// a refused NewJob in RunJobWorker returns the cause too
				r.Fail("first-error", "not-first-job-error", "Wait returned %v, first job error was %v", waitErr, firstErr.err)
			}
		case cancelBeforeWait && (!errBeforeWait || cancelSeq < firstErr.errSeq):
			if waitErr == nil {
				// cancellation may land after everything finished but before Wait sampled it
				allEnded := true
				for _, j := range jobs {
					if j.accepted && j.endSeq > cancelSeq {
						allEnded = false
					}
				}

				if !allEnded {
					r.Fail("first-error", "cancel-lost", "cancelled at %d with jobs running, Wait returned nil", cancelSeq)
				}
			}
			// which error an external cancellation surfaces as is not part of the statement: any non-nil error is accepted
		}
	}
}

func c33Batch(r *simkit.Run) {
	size := int64(r.Draw("size", 1, 24))
	limit := int64(r.Draw("limit", 1, 10))
	if r.Chance(1, 3) {
		// exact multiple
		limit = int64(r.Draw("limit_div", 1, 6))
		size = limit * int64(r.Draw("mult", 1, 4))
	}

	failAt := int64(-1)
	if r.Flag("job_fails") {
		failAt = int64(r.Choose(int(size)))
	}

	prefFailAt := int64(-1)
	if r.Chance(1, 8) {
		prefFailAt = int64(r.Choose(int(size)))
	}

	type visit struct{ start, end int64 }

	visits := make([][]visit, size)
	type prefCall struct {
		last uint64
		seq  int64
	}

	var prefs []prefCall

	errJob := errors.New("batch job failed")
	errPref := errors.New("pref failed")

	var (
		ret    error
		retSeq int64
		done   bool
	)

	r.Go("batch", func() {
		ret = util.BatchWork(context.Background(), size, limit,
			func(_ context.Context, last uint64) error {
				prefs = append(prefs, prefCall{last, r.Seq()})
				r.ForceYield("pref")

				if prefFailAt >= 0 && int64(last) >= prefFailAt {
					return errPref
				}

				return nil
			},
			func(_ context.Context, i, last uint64) error {
				v := visit{start: r.Seq()}

				for k := r.Choose(3); k > 0; k-- {
					r.ForceYield("batchjob")
				}

				v.end = r.Seq()
				visits[i] = append(visits[i], v)

				if int64(i) == failAt {
					return errJob
				}

				_ = last

				return nil
			})
		retSeq = r.Seq()
		done = true
	})

	r.Sched(simkit.SchedOpts{MaxSteps: 8000, KeepGoing: true, Until: func() bool { return done && len(r.Parked()) == 0 }, MaxSim: 30 * time.Minute, Quanta: c33Quanta, Stick: r.DrawStick()})

	r.Op("batch size=%d limit=%d failAt=%d prefFailAt=%d ret=%v", size, limit, failAt, prefFailAt, ret)

	if !done {
		r.Fail("liveness", "batch", "BatchWork did not return")
	}

	r.Checked()
	_ = retSeq

	for i := range visits {
		if len(visits[i]) > 1 {
			r.Fail("batch-exactly-once", "twice", "index %d visited %d times", i, len(visits[i]))
		}
	}

	if ret == nil {
		if failAt >= 0 || prefFailAt >= 0 {
			r.Fail("first-error", "batch-error-lost", "job %d / pref %d failed but BatchWork returned nil", failAt, prefFailAt)
		}

		for i := range visits {
			if len(visits[i]) != 1 {
				r.Fail("batch-exactly-once", "missed", "size=%d limit=%d: index %d visited %d times", size, limit, i, len(visits[i]))
			}
		}

		// batch by batch: batch b covers [b*limit, min((b+1)*limit,size)); pref(last) before its jobs, after the previous batch
		nb := (size + limit - 1) / limit
		if int64(len(prefs)) != nb {
			r.Fail("batch-order", "pref-count", "size=%d limit=%d: %d batches but %d pref calls", size, limit, nb, len(prefs))
		}

		for b := int64(0); b < nb; b++ {
			lo, hi := b*limit, (b+1)*limit
			if hi > size {
				hi = size
			}

			if prefs[b].last != uint64(hi-1) {
				r.Fail("batch-order", "pref-last", "batch %d: pref(last=%d), want %d", b, prefs[b].last, hi-1)
			}

			for i := lo; i < hi; i++ {
				if visits[i][0].start < prefs[b].seq {
					r.Fail("batch-order", "job-before-pref", "index %d started before pref of its batch", i)
				}

				if b+1 < nb && visits[i][0].end > prefs[b+1].seq {
					r.Fail("batch-order", "next-pref-before-job-end", "index %d ended after pref of next batch", i)
				}
			}
		}
	} else if failAt < 0 && prefFailAt < 0 {
		r.Fail("first-error", "batch-spurious-error", "BatchWork returned %v without any failure", ret)
	}
}

func init() {
	simkit.Register(&simkit.Harness{
		ID:          "C33",
		Run:         c33Run,
		Real:        []string{"util.BaseJobWorker", "util.NewErrCallbackJobWorker", "util.RunJobWorker", "util.RunErrCallbackJobWorker", "util.BatchWork", "golang.org/x/sync/semaphore"},
		Stub:        []string{"jobs (harness closures that yield, sleep on the fake clock, fail or obey cancellation)"},
		Rule:        "each run draws worker kind, job count 1..12, semaphore 1..8, failing jobs, job sleeps on the fake clock, an external cancellation at a drawn point, or a BatchWork (size 1..24, limit 1..10, exact multiples forced in a third of runs, failing job/pref); the kernel picks the interleaving of job goroutines, producer and canceller. distinct = distinct event-log hash; non-trivial = non-zero choice consumed and oracle evaluated",
		Assumptions: []string{"'first error' is the first job to return an error in kernel order; an external cancellation competes with job errors by the same order"},
	})
}
