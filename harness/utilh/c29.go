package utilh

import (
	"bytes"
	"encoding/binary"
	"fmt"
	"io"

	"github.com/pkg/errors"
	"github.com/spikeekips/mitum/simkit"
	"github.com/spikeekips/mitum/util"
)

// simReader hands out a byte string in tape-chosen chunks; it can end early,
// fail, deliver EOF together with the last bytes, and return empty reads.
type simReader struct {
	r        *simkit.Run
	data     []byte
	pos      int
	maxChunk int
	eofWith  bool // return io.EOF together with the final chunk
	failAt   int  // return an error once pos >= failAt (-1: never)
	empties  bool // sometimes return (0, nil)
	handed   int
}

var errSimReader = errors.New("simulated reader error")

func (s *simReader) Read(p []byte) (int, error) {
	s.r.ForceYield("reader.Read")

	if s.failAt >= 0 && s.pos >= s.failAt {
		s.r.Fault("reader_error")

		return 0, errSimReader
	}

	if s.pos >= len(s.data) {
		return 0, io.EOF
	}

	if s.empties && s.r.Chance(1, 8) {
		s.r.Fault("empty_read")

		return 0, nil
	}

	n := 1 + s.r.Choose(s.maxChunk)

	// EnsureRead allocates a buffer of the whole outstanding size for every partial read: when a flipped
	// length field announces hundreds of MiB, hand over all that is left at once and keep the worker
	// within its memory limit (allocation size is not C29's subject)
	if len(p) > 1<<22 {
		n = len(s.data)
		s.r.Probe("huge_length_announced")
	}

	if n > len(p) {
		n = len(p)
	}

	if n > len(s.data)-s.pos {
		n = len(s.data) - s.pos
	}

	if s.failAt >= 0 && s.pos+n > s.failAt {
		n = s.failAt - s.pos
	}

	copy(p, s.data[s.pos:s.pos+n])
	s.pos += n
	s.handed += n

	if s.eofWith && s.pos == len(s.data) {
		return n, io.EOF
	}

	return n, nil
}

func c29Encode(list [][]byte) []byte {
	var b bytes.Buffer

	var l [8]byte

	binary.BigEndian.PutUint64(l[:], uint64(len(list)))
	b.Write(l[:])

	for _, it := range list {
		binary.BigEndian.PutUint64(l[:], uint64(len(it)))
		b.Write(l[:])
		b.Write(it)
	}

	return b.Bytes()
}

func c29EqualLists(a, b [][]byte) bool {
	if len(a) != len(b) {
		return false
	}

	for i := range a {
		if !bytes.Equal(a[i], b[i]) {
			return false
		}
	}

	return true
}

func c29GenList(r *simkit.Run) [][]byte {
	var n int

	switch r.Draw("list_size_class", 0, 5) {
	case 0:
		n = 0
	case 1, 2:
		n = 1 + r.Choose(4)
	case 3:
		n = 5 + r.Choose(60)
	case 4:
		n = 32760 + r.Choose(16) // around the reader's count limit
	default:
		n = 1000 + r.Choose(39001)
	}

	list := make([][]byte, n)
	budget := 1 << 20

	for i := range list {
		var sz int

		switch {
		case n > 200:
			sz = r.Choose(3)
		case r.Chance(1, 6):
			sz = 0
		case r.Chance(1, 12) && budget > 70000:
			sz = 60000 + r.Choose(5537)
		default:
			sz = 1 + r.Choose(40)
		}

		if sz > budget {
			sz = 0
		}

		budget -= sz

		it := make([]byte, sz)
		for j := range it {
			it[j] = byte(i + j)
		}

		list[i] = it
	}

	return list
}

func c29Run(r *simkit.Run) {
	r.PanicIsViolation()

	mode := r.Draw("mode", 0, 2) // 0 buffer API, 1 stream API, 2 frame writer/reader
	list := c29GenList(r)

	enc, err := util.NewLengthedBytesSlice(list)
	if err != nil {
		r.Fail("write-error", "write", "NewLengthedBytesSlice: %v", err)
	}

	if !bytes.Equal(enc, c29Encode(list)) {
		r.Fail("encoding", "writer", "WriteLengthedSlice does not produce count + (length + bytes)*")
	}

	sizeClass := "small"
	if len(list) > 32767 {
		sizeClass = "more-than-32767-items"
	}

	switch mode {
	case 0:
		c29Buffer(r, list, enc, sizeClass)
	case 1:
		c29Stream(r, list, enc, sizeClass)
	default:
		c29Frame(r)
	}
}

// c29Hostile overwrites one 8-byte length field with a value chosen to hurt: the top of the uint64 range (where
// offset+length wraps), the sign boundaries of int64/int32, the refusal bound of the readers and one more than the
// bytes that are left. fields are the offsets of the length fields of the encoding; one draw in four takes any offset.
func c29Hostile(r *simkit.Run, data []byte, fields []int) ([]byte, string) {
	if len(data) < 8 {
		return nil, ""
	}

	off := 0

	switch {
	case len(fields) > 0 && !r.Chance(1, 4):
		off = fields[r.Choose(len(fields))]
	default:
		off = r.Choose(len(data) - 7)
	}

	if off+8 > len(data) {
		off = len(data) - 8
	}

	left := uint64(len(data) - off - 8)

	var v uint64

	switch r.Choose(8) {
	case 0, 1, 2:
		v = ^uint64(0) - uint64(r.Choose(17)) // 2^64-1 .. 2^64-17
	case 3:
		v = uint64(1)<<63 + uint64(r.Choose(3)) - 1
	case 4:
		v = uint64(1)<<uint(31+r.Choose(3)) + uint64(r.Choose(3)) - 1
	case 5:
		v = left + 1 + uint64(r.Choose(8))
	case 6:
		v = 32766 + uint64(r.Choose(4))
	default:
		v = ^uint64(0) - left - uint64(r.Choose(17)) // wraps when the offset or what is left is added
	}

	mut := append([]byte(nil), data...)
	binary.BigEndian.PutUint64(mut[off:], v)
	r.Fault("hostile_length_field")

	return mut, fmt.Sprintf("length field at offset %d set to %#x", off, v)
}

// c29Fields gives the offsets of the count and of every item length of the encoding of list
func c29Fields(list [][]byte) []int {
	fields := []int{0}
	off := 8

	for i, it := range list {
		if i >= 64 {
			break
		}

		fields = append(fields, off)
		off += 8 + len(it)
	}

	return fields
}

func c29Buffer(r *simkit.Run, list [][]byte, enc []byte, sizeClass string) {
	extra := make([]byte, r.Choose(5))
	input := append(append([]byte(nil), enc...), extra...)

	judge := func(what string, in []byte, clean bool) {
		m, left, err := util.ReadLengthedBytesSlice(in)
		r.Checked()

		switch {
		case err != nil:
			if clean {
				r.Fail("roundtrip", "buffer:"+sizeClass, "%s: a well-formed list of %d items was refused: %v", what, len(list), err)
			}
		default:
			// faithful to the bytes given: re-encoding the result followed by the left-over is the input
			re := append(c29Encode(m), left...)
			if !bytes.Equal(re, in) {
				sig := "buffer:" + sizeClass
				if !clean {
					sig = "buffer:malformed-input-accepted"
				}

				r.Fail("unfaithful-parse", sig, "%s: success with %d items and %d left-over bytes, which does not spell the %d input bytes (input list had %d items)", what, len(m), len(left), len(in), len(list))
			}

			if clean && !c29EqualLists(m, list) {
				r.Fail("roundtrip", "buffer:"+sizeClass, "%s: read back a different list", what)
			}
		}
	}

	r.Go("reader", func() {
		judge("clean input", input, true)
		r.Op("buffer: %d items, %d bytes", len(list), len(input))

		if len(enc) <= 4096 {
			// every truncation
			for cut := 0; cut < len(enc); cut++ {
				judge(fmt.Sprintf("truncated to %d of %d bytes", cut, len(enc)), enc[:cut], false)
			}

			r.ProbeN("truncations", len(enc))
		} else {
			for i := 0; i < 20; i++ {
				cut := r.Choose(len(enc))
				judge(fmt.Sprintf("truncated to %d of %d bytes", cut, len(enc)), enc[:cut], false)
			}
		}

		// byte flips, biased to the length fields
		nflips := 1 + r.Choose(8)
		for i := 0; i < nflips; i++ {
			mut := append([]byte(nil), input...)
			if len(mut) == 0 {
				break
			}

			pos := r.Choose(len(mut))
			if r.Chance(2, 3) {
				pos = r.Choose(8) // the count field
				if pos >= len(mut) {
					pos = 0
				}
			}

			mut[pos] ^= byte(1 << uint(r.Choose(8)))
			r.Fault("byte_flip")
			judge(fmt.Sprintf("bit flipped at offset %d", pos), mut, false)
		}

		// length fields set by an adversary
		for i := 0; i < 1+r.Choose(4); i++ {
			if mut, what := c29Hostile(r, input, c29Fields(list)); mut != nil {
				judge(what, mut, false)
			}
		}
	})

	r.Sched(simkit.SchedOpts{MaxSteps: 2000000})
}

func c29Stream(r *simkit.Run, list [][]byte, enc []byte, sizeClass string) {
	kind := r.Draw("stream_fault", 0, 4) // 0 clean, 1 truncated, 2 reader error, 3 flip, 4 hostile length field

	data := append([]byte(nil), enc...)
	clean := kind == 0
	truncated := false

	sr := &simReader{r: r, maxChunk: []int{1, 3, 8, 64, 70000}[r.Draw("max_chunk", 0, 4)], failAt: -1, eofWith: r.Flag("eof_with_last_chunk"), empties: r.Flag("empty_reads")}

	// keep big inputs affordable: byte-sized chunks are explored on small encodings
	if len(data) > 20000 {
		if sr.maxChunk < 4096 {
			sr.maxChunk = 4096
		}

		sr.empties = false
	}

	switch kind {
	case 1:
		if len(data) > 0 {
			cut := r.Choose(len(data))

			// half of the cuts fall on the structure of the encoding: right after the count, right after the
			// length prefix of an item (the body missing entirely), right after a body, or one byte off those
			if r.Chance(1, 2) {
				bounds := []int{8}
				off := 8

				for _, it := range list {
					bounds = append(bounds, off+8, off+8+len(it))
					off += 8 + len(it)
				}

				cut = bounds[r.Choose(len(bounds))] + []int{0, 0, -1, 1}[r.Choose(4)]
				if cut < 0 || cut >= len(data) {
					cut = r.Choose(len(data))
				}

				r.Probe("truncated_at_item_boundary")
			}

			data = data[:cut]
			truncated = true
			r.Fault("truncated_stream")
		} else {
			clean = true
		}
	case 2:
		sr.failAt = r.Choose(len(data) + 1)
	case 3:
		if len(data) > 0 {
			pos := r.Choose(len(data))
			if r.Chance(1, 2) && len(data) >= 8 {
				pos = r.Choose(8)
			}

			data[pos] ^= byte(1 << uint(r.Choose(8)))
			r.Fault("byte_flip")
		} else {
			clean = true
		}
	case 4:
		if mut, _ := c29Hostile(r, data, c29Fields(list)); mut != nil {
			data = mut
		} else {
			clean = true
		}
	}

	// trailing bytes that belong to whatever follows the list on the stream (nothing follows a cut stream)
	trailing := r.Choose(4)
	if truncated {
		trailing = 0
	}
	sr.data = append(append([]byte(nil), data...), make([]byte, trailing)...)

	r.Go("reader", func() {
		read, hs, err := util.ReadLengthedSlice(sr)
		r.Checked()
		r.Op("stream: %d items, %d bytes, fault kind %d, chunk<=%d -> read=%d err=%v", len(list), len(data), kind, sr.maxChunk, read, err != nil)

		switch {
		case err != nil:
			if clean && sr.failAt < 0 {
				r.Fail("roundtrip", "stream:"+sizeClass, "a well-formed stream of %d items was refused: %v", len(list), err)
			}
		default:
			consumed := sr.data[:sr.handed]
			if int(read) != sr.handed {
				r.Fail("unfaithful-parse", "stream:read-count", "reported %d bytes read, the reader handed out %d", read, sr.handed)
			}

			if !bytes.Equal(c29Encode(hs), consumed) {
				sig := "stream:" + sizeClass
				if !clean {
					sig = "stream:malformed-input-accepted"
				}

				r.Fail("unfaithful-parse", sig, "success with %d items whose encoding is not the %d bytes consumed (input list had %d items, fault kind %d)", len(hs), len(consumed), len(list), kind)
			}

			if clean && !c29EqualLists(hs, list) {
				r.Fail("roundtrip", "stream:"+sizeClass, "read back a different list")
			}
		}
	})

	r.Sched(simkit.SchedOpts{MaxSteps: 5000000, Stick: 8})

	if r.Unfinished() {
		r.Fail("liveness", "stream", "the reading task did not finish")
	}
}

func c29Frame(r *simkit.Run) {
	nh := r.Choose(5)
	headers := make([][]byte, nh)

	for i := range headers {
		headers[i] = bytes.Repeat([]byte{byte('a' + i)}, r.Choose(20))
	}

	nl := r.Choose(3)
	lengthed := make([][]byte, nl)

	for i := range lengthed {
		lengthed[i] = bytes.Repeat([]byte{byte('A' + i)}, r.Choose(300))
	}

	raw := bytes.Repeat([]byte{'z'}, r.Choose(100))

	var buf bytes.Buffer

	fw, err := util.NewBytesFrameWriter(&buf)
	if err != nil {
		panic(err)
	}

	if err := fw.Header(headers...); err != nil {
		r.Fail("write-error", "frame", "Header: %v", err)
	}

	for _, l := range lengthed {
		if err := fw.Lengthed(l); err != nil {
			r.Fail("write-error", "frame", "Lengthed: %v", err)
		}
	}

	if _, err := fw.Writer().Write(raw); err != nil {
		r.Fail("write-error", "frame", "Write: %v", err)
	}

	data := append([]byte(nil), buf.Bytes()...)
	kind := r.Draw("stream_fault", 0, 3) // 0 clean, 1 truncated, 2 flip, 3 hostile length field

	switch kind {
	case 3:
		if mut, _ := c29Hostile(r, data, nil); mut != nil {
			data = mut
		} else {
			kind = 0
		}
	case 1:
		cut := r.Choose(len(data))
		if r.Chance(1, 2) { // around the lengthed bodies at the end of the frame
			back := len(raw) + r.Choose(320)
			if back < len(data) {
				cut = len(data) - 1 - back
			}
		}

		data = data[:cut]
		r.Fault("truncated_stream")
	case 2:
		pos := r.Choose(len(data))
		data[pos] ^= byte(1 << uint(r.Choose(8)))
		r.Fault("byte_flip")
	}

	sr := &simReader{r: r, data: data, maxChunk: []int{1, 3, 8, 64, 4096}[r.Draw("max_chunk", 0, 4)], failAt: -1, eofWith: r.Flag("eof_with_last_chunk")}

	r.Go("reader", func() {
		fr, err := util.NewBytesFrameReader(sr)
		if err != nil {
			if kind == 0 {
				r.Fail("roundtrip", "frame", "NewBytesFrameReader on a clean frame: %v", err)
			}

			return
		}

		hs, err := fr.Header()
		r.Checked()

		if err != nil {
			if kind == 0 {
				r.Fail("roundtrip", "frame", "Header on a clean frame: %v", err)
			}

			return
		}

		if kind == 0 && !c29EqualLists(hs, headers) {
			r.Fail("roundtrip", "frame", "headers read back differ")
		}

		// a cut frame only lacks a suffix: whatever is read successfully from it must be what was written
		if kind == 1 && !c29EqualLists(hs, headers) {
			r.Fail("unfaithful-parse", "frame:truncated-headers-accepted", "a frame cut to %d of %d bytes gave headers %q without an error; written were %q", len(data), buf.Len(), hs, headers)
		}

		for i := range lengthed {
			var got []byte

			called := false
			if err := fr.Lengthed(func(b []byte) error { got, called = b, true; return nil }); err != nil {
				if kind == 0 {
					r.Fail("roundtrip", "frame", "Lengthed on a clean frame: %v", err)
				}

				return
			}

			if kind == 0 && (!called || !bytes.Equal(got, lengthed[i])) {
				r.Fail("roundtrip", "frame", "lengthed body %d read back differs (called=%v)", i, called)
			}

			if kind == 1 && (!called || !bytes.Equal(got, lengthed[i])) {
				r.Fail("unfaithful-parse", "frame:truncated-body-accepted", "a frame cut to %d of %d bytes gave lengthed body %d = %d bytes (called=%v) without an error; written were %d bytes", len(data), buf.Len(), i, len(got), called, len(lengthed[i]))
			}
		}

		body, err := fr.Body()
		if err != nil {
			if kind == 0 {
				r.Fail("roundtrip", "frame", "Body on a clean frame: %v", err)
			}

			return
		}

		if kind == 0 && !bytes.Equal(body, raw) {
			r.Fail("roundtrip", "frame", "raw body read back differs: %d vs %d bytes", len(body), len(raw))
		}

		r.Op("frame: %d headers, %d lengthed, %d raw, fault %d", nh, nl, len(raw), kind)
	})

	r.Sched(simkit.SchedOpts{MaxSteps: 2000000, Stick: 8})

	if r.Unfinished() {
		r.Fail("liveness", "frame", "the reading task did not finish")
	}
}

func init() {
	simkit.Register(&simkit.Harness{
		ID:          "C29",
		Run:         c29Run,
		Real:        []string{"util.WriteLengthedSlice/NewLengthedBytesSlice", "util.ReadLengthedBytesSlice", "util.ReadLengthedSlice/ReadLengthed/ReadLength/EnsureRead (helper goroutine per read)", "util.BytesFrameWriter/BytesFrameReader"},
		Stub:        []string{"stream: simReader (tape-chosen chunk sizes incl. 1-byte and empty reads, EOF with or after the last chunk, early EOF, error at a drawn offset)"},
		Rule:        "each run draws a list (0 items, a few, dozens, around 32767, up to 40000; items 0..64 KiB, total capped at 1 MiB) and a mode: buffer API (clean input with trailing bytes, EVERY truncation of encodings up to 4 KiB, bit flips biased to length fields, length fields overwritten with hostile values: the top of the uint64 range where offset+length wraps, int64/int32 sign boundaries, the refusal bound, one past what is left), stream API (clean / truncated / reader error / bit flip / hostile length field, chunking 1..70000 bytes), or the frame writer/reader. One condition judges clean, truncated and flipped input alike: an error, or a result whose re-encoding is byte-identical to what was consumed; a clean input must read back identically; a panic in the reading task is a violation. distinct = event-log hash",
		Assumptions: []string{"an empty item may read back as nil", "when a flipped length field announces more than 4 MiB the simulated stream delivers all remaining bytes in one read, so that the per-read allocation of EnsureRead stays within the worker's memory limit"},
	})
}
