// Package utilh holds the simulation harnesses for the util group
// (C32 locked maps, C33 job workers, C34 timers, C29 framing).
package utilh

import (
	"fmt"
	"sort"
	"strings"
	"time"

	"github.com/anishathalye/porcupine"
	"github.com/pkg/errors"
	"github.com/spikeekips/mitum/simkit"
	"github.com/spikeekips/mitum/util"
)

const c32Keys = 4

type c32State struct {
	vals   [c32Keys]int // 0 = absent
	closed bool
}

type c32In struct {
	Op   string
	Key  int
	Val  int // value to write (unique, >0)
	Mode int // callback behaviour: 0 ok, 1 ignore, 2 error ; SetOrRemove: 3 remove
}

type c32Out struct {
	Found  bool // value seen by read / callback
	Seen   int
	Ret    int  // returned value
	A, B   bool // added/created, removed
	Err    int  // 0 nil, 1 callback error, 2 closed
	Snap   [c32Keys]int
	Called bool // callback was called
}

var errC32 = errors.New("c32 callback error")

func c32ErrKind(err error) int {
	switch {
	case err == nil:
		return 0
	case errors.Is(err, util.ErrLockedMapClosed):
		return 2
	case errors.Is(err, errC32):
		return 1
	default:
		return 3
	}
}

// c32Step is the sequential map: written from the documented meaning of the
// LockedMap operations, not from the sharded implementation.
func c32Step(st c32State, in c32In, out c32Out) (bool, c32State) {
	cur := 0
	if in.Key >= 0 {
		cur = st.vals[in.Key]
	}

	found := cur != 0

	if st.closed {
		// a closed map holds nothing and accepts nothing; operations either
		// say "closed" or behave as on an empty map without storing.
		switch in.Op {
		case "exists", "value":
			return !out.Found, st
		case "setvalue":
			return !out.A, st
		case "removevalue":
			return !out.A, st
		case "get":
			return out.Err == 2 || (out.Called && !out.Found), st
		case "getorcreate", "set", "setorremove":
			return out.Err == 2, st
		case "remove":
			return out.Err == 2 || !out.A, st
		case "traverse", "map":
			return out.Snap == [c32Keys]int{}, st
		case "empty", "close":
			return true, st
		}

		return false, st
	}

	switch in.Op {
	case "exists":
		return out.Found == found, st
	case "value":
		return out.Found == found && (!found || out.Seen == cur), st
	case "setvalue":
		st.vals[in.Key] = in.Val

		return out.A == !found, st
	case "removevalue":
		st.vals[in.Key] = 0

		return out.A == found, st
	case "get":
		if !out.Called || out.Found != found || (found && out.Seen != cur) {
			return false, st
		}

		return (in.Mode == 2) == (out.Err == 1) && out.Err != 2, st
	case "getorcreate":
		if found {
			// f(v,false); its error is returned
			ok := out.Called && out.Seen == cur && !out.A
			ok = ok && ((in.Mode == 2) == (out.Err == 1))

			return ok, st
		}

		switch in.Mode {
		case 1: // create ignored
			return !out.Called && out.Err == 0, st
		case 2: // create failed
			return !out.Called && out.Err == 1, st
		default:
			st.vals[in.Key] = in.Val

			return out.Called && out.Seen == in.Val && out.A && out.Err == 0, st
		}
	case "set":
		if !out.Called || out.Found != found || (found && out.Seen != cur) {
			return false, st
		}

		switch in.Mode {
		case 1:
			return out.Err == 0 && !out.A && out.Ret == cur, st
		case 2:
			return out.Err == 1 && !out.A, st
		default:
			st.vals[in.Key] = in.Val

			return out.Err == 0 && out.A == !found && out.Ret == in.Val, st
		}
	case "remove":
		if !out.Called || out.Found != found || (found && out.Seen != cur) {
			return false, st
		}

		switch in.Mode {
		case 1:
			return out.Err == 0 && !out.A, st
		case 2:
			return out.Err == 1 && !out.A, st
		default:
			st.vals[in.Key] = 0

			return out.Err == 0 && out.A == found, st
		}
	case "setorremove":
		if !out.Called || out.Found != found || (found && out.Seen != cur) {
			return false, st
		}

		switch in.Mode {
		case 1:
			return out.Err == 0 && !out.A && !out.B && out.Ret == cur, st
		case 2:
			return out.Err == 1 && !out.A && !out.B, st
		case 3: // remove
			st.vals[in.Key] = 0

			return out.Err == 0 && !out.A && out.B == found, st
		default:
			st.vals[in.Key] = in.Val

			return out.Err == 0 && out.A == !found && !out.B && out.Ret == in.Val, st
		}
	case "traverse", "map":
		return out.Snap == st.vals, st
	case "empty":
		st.vals = [c32Keys]int{}

		return true, st
	case "close":
		st.vals = [c32Keys]int{}
		st.closed = true

		return true, st
	}

	return false, st
}

var c32Model = porcupine.Model{
	Init: func() interface{} { return c32State{} },
	Step: func(state, input, output interface{}) (bool, interface{}) {
		ok, st := c32Step(state.(c32State), input.(c32In), output.(c32Out))

		return ok, st
	},
	Equal: func(a, b interface{}) bool { return a.(c32State) == b.(c32State) },
	DescribeOperation: func(in, out interface{}) string {
		return fmt.Sprintf("%+v -> %+v", in, out)
	},
}

// keys differ in their first byte: mitum's djb2 variant ignores the last byte
// of a string, so "k0".."k3" would all land in one shard.
func c32Key(i int) string { return fmt.Sprintf("%dk", i) }

func c32Do(m util.LockedMap[string, int], in c32In, cbYield func()) (out c32Out) {
	k := ""
	if in.Key >= 0 {
		k = c32Key(in.Key)
	}

	cberr := func() error {
		switch in.Mode {
		case 1:
			return util.ErrLockedSetIgnore.Errorf("ignore")
		case 2:
			return errC32
		default:
			return nil
		}
	}

	switch in.Op {
	case "exists":
		out.Found = m.Exists(k)
	case "value":
		out.Seen, out.Found = m.Value(k)
	case "setvalue":
		out.A = m.SetValue(k, in.Val)
	case "removevalue":
		out.A = m.RemoveValue(k)
	case "get":
		err := m.Get(k, func(v int, found bool) error {
			out.Called, out.Seen, out.Found = true, v, found
			cbYield()

			if in.Mode == 2 {
				return errC32
			}

			return nil
		})
		out.Err = c32ErrKind(err)
	case "getorcreate":
		err := m.GetOrCreate(k, func(v int, created bool) error {
			out.Called, out.Seen, out.A = true, v, created
			cbYield()

			if !created && in.Mode == 2 {
				return errC32
			}

			return nil
		}, func() (int, error) {
			cbYield()

			return in.Val, cberr()
		})
		out.Err = c32ErrKind(err)
	case "set":
		v, created, err := m.Set(k, func(old int, found bool) (int, error) {
			out.Called, out.Seen, out.Found = true, old, found
			cbYield()

			return in.Val, cberr()
		})
		out.Ret, out.A, out.Err = v, created, c32ErrKind(err)
	case "remove":
		removed, err := m.Remove(k, func(old int, found bool) error {
			out.Called, out.Seen, out.Found = true, old, found
			cbYield()

			return cberr()
		})
		out.A, out.Err = removed, c32ErrKind(err)
	case "setorremove":
		v, created, removed, err := m.SetOrRemove(k, func(old int, found bool) (int, bool, error) {
			out.Called, out.Seen, out.Found = true, old, found
			cbYield()

			if in.Mode == 3 {
				return 0, true, nil
			}

			return in.Val, false, cberr()
		})
		out.Ret, out.A, out.B, out.Err = v, created, removed, c32ErrKind(err)
	case "traverse":
		m.Traverse(func(k string, v int) bool {
			var i int
			fmt.Sscanf(k, "%dk", &i)
			out.Snap[i] = v

			return true
		})
	case "map":
		for k, v := range m.Map() {
			var i int
			fmt.Sscanf(k, "%dk", &i)
			out.Snap[i] = v
		}
	case "empty":
		m.Empty()
	case "close":
		m.Close()
	}

	return out
}

var c32Ops = []string{
	"setvalue", "value", "set", "getorcreate", "removevalue", "remove", "setorremove",
	"exists", "get", "traverse", "map", "setvalue", "value",
}

func c32GenIn(r *simkit.Run, nextVal *int, allowWhole bool) c32In {
	in := c32In{Key: r.Choose(c32Keys)}
	n := len(c32Ops)
	in.Op = c32Ops[r.Choose(n)]

	if allowWhole && r.Chance(1, 24) {
		if r.Chance(1, 2) {
			in.Op = "empty"
		} else {
			in.Op = "close"
		}
	}

	switch in.Op {
	case "traverse", "map", "empty", "close":
		in.Key = -1
	case "get":
		in.Mode = []int{0, 0, 2}[r.Choose(3)]
	case "getorcreate", "set", "remove":
		in.Mode = []int{0, 0, 0, 1, 2}[r.Choose(5)]
	case "setorremove":
		in.Mode = []int{0, 0, 3, 3, 1, 2}[r.Choose(6)]
	}

	*nextVal++
	in.Val = *nextVal

	return in
}

func c32Describe(ops []porcupine.Operation) []string {
	s := make([]string, len(ops))
	for i, o := range ops {
		s[i] = fmt.Sprintf("c%d [%d,%d] %+v -> %+v", o.ClientId, o.Call, o.Return, o.Input, o.Output)
	}

	return s
}

// c32Classify names the shape of an illegal history so that different
// violations of C32 are told apart: does it stay illegal without the
// whole-map snapshot reads (traverse/map), without the whole-map writes
// (empty/close)?
func c32Classify(kind string, ops []porcupine.Operation) string {
	without := func(drop map[string]bool) []porcupine.Operation {
		var o []porcupine.Operation
		for _, x := range ops {
			if !drop[x.Input.(c32In).Op] {
				o = append(o, x)
			}
		}

		return o
	}

	base := "single"
	if kind != "single" {
		base = "sharded"
	}

	if porcupine.CheckOperationsTimeout(c32Model, without(map[string]bool{"traverse": true, "map": true}), 20*time.Second) == porcupine.Ok {
		return base + ":illegal-only-with-snapshot-read"
	}

	if porcupine.CheckOperationsTimeout(c32Model, without(map[string]bool{"traverse": true, "map": true, "empty": true, "close": true}), 20*time.Second) == porcupine.Ok {
		return base + ":illegal-only-with-empty-or-close"
	}

	return base + ":illegal-per-key"
}

func c32Run(r *simkit.Run) {
	kindI := r.Draw("mapkind", 0, 3) // 0 single, 1 sharded, 2 deep sharded, 3 locked value
	if kindI == 3 {
		c32RunLocked(r)

		return
	}

	nclients := r.Draw("clients", 2, 4)
	nops := r.Draw("ops_per_client", 2, 7)
	if r.Tier == "thorough" {
		nclients = r.Draw("clients_extra", 0, 2) + nclients
	}

	allowWhole := r.Flag("whole_map_ops")
	cbYields := r.Flag("yield_in_callbacks")

	var m util.LockedMap[string, int]

	kind := "single"

	switch kindI {
	case 0:
		m = util.NewSingleLockedMap[string, int]()
	case 1:
		kind = "sharded"
		size := []uint64{2, 3, 4, 7, 16, 64}[r.Draw("shards", 0, 5)]
		m, _ = util.NewShardedMap[string, int](size, nil)
	case 2:
		kind = "deep"
		sizes := [][]uint64{{2, 2}, {2, 3}, {3, 2, 2}, {4, 4}}[r.Draw("deep", 0, 3)]
		m, _ = util.NewDeepShardedMap[string, int](sizes, nil)
	}

	var ops []porcupine.Operation

	nextVal := 0

	// every input is generated up front on the root goroutine so that the
	// operation sequence is independent of the schedule.
	ins := make([][]c32In, nclients)
	for c := range ins {
		for i := 0; i < nops; i++ {
			ins[c] = append(ins[c], c32GenIn(r, &nextVal, allowWhole))
		}
	}

	for c := 0; c < nclients; c++ {
		c := c

		r.Go(fmt.Sprintf("client%d", c), func() {
			for _, in := range ins[c] {
				call := r.Seq()
				out := c32Do(m, in, func() {
					if cbYields {
						r.ForceYield("callback")
					}
				})
				ret := r.Seq()
				ops = append(ops, porcupine.Operation{ClientId: c, Input: in, Call: call, Output: out, Return: ret})
				r.Event(fmt.Sprintf("c%d %s k%d", c, in.Op, in.Key))
			}
		})
	}

	r.Sched(simkit.SchedOpts{MaxSteps: 4000, Stick: r.DrawStick()})

	if r.Truncated || r.Live() > 0 {
		r.Fail("deadlock", kind, "clients did not finish: live=%d truncated=%v", r.Live(), r.Truncated)
	}

	// final clause: reported length equals number of keys
	finalLen := m.Len()
	finalMap := m.Map()
	r.Checked()

	for _, o := range c32Describe(ops) {
		r.Op("%s", o)
	}

	if finalLen != len(finalMap) {
		sig := "single:len-after-finish"
		if kind != "single" {
			sig = "sharded:len-after-finish"
		}

		hasWhole := false
		for _, o := range ops {
			if op := o.Input.(c32In).Op; op == "empty" || op == "close" {
				hasWhole = true
			}
		}

		if hasWhole {
			sig += ":with-empty-or-close"
		}

		r.Fail("final-len", sig, "Len()=%d but Map() has %d keys %v\n%s", finalLen, len(finalMap), finalMap, strings.Join(c32Describe(ops), "\n"))
	}

	r.AfterBubble(func() {
		switch porcupine.CheckOperationsTimeout(c32Model, ops, 30*time.Second) {
		case porcupine.Ok:
			r.Probe("porcupine_ok")
		case porcupine.Unknown:
			r.Probe("porcupine_unknown")
		case porcupine.Illegal:
			r.Probe("porcupine_illegal")
			sort.Slice(ops, func(i, j int) bool { return ops[i].Call < ops[j].Call })
			r.Fail("linearizability", c32Classify(kind, ops), "history of %s map is not linearizable:\n%s", kind, strings.Join(c32Describe(ops), "\n"))
		}
	})
}

// ---- Locked[T] ----

type c32LIn struct {
	Op   string
	Val  int
	Mode int
}

type c32LOut struct {
	Seen    int
	Empty   bool
	Ret     int
	Created bool
	Err     int
	Called  bool
}

type c32LState struct {
	v     int
	empty bool
}

var c32LModel = porcupine.Model{
	Init: func() interface{} { return c32LState{empty: true} },
	Step: func(state, input, output interface{}) (bool, interface{}) {
		st, in, out := state.(c32LState), input.(c32LIn), output.(c32LOut)

		switch in.Op {
		case "value":
			return out.Empty == st.empty && (st.empty || out.Seen == st.v), st
		case "setvalue":
			return true, c32LState{v: in.Val}
		case "emptyvalue":
			return true, c32LState{empty: true}
		case "get":
			ok := out.Called && out.Empty == st.empty && (st.empty || out.Seen == st.v)

			return ok && (in.Mode == 2) == (out.Err == 1), st
		case "getorcreate":
			if !st.empty {
				return out.Called && out.Seen == st.v && !out.Created && (in.Mode == 2) == (out.Err == 1), st
			}

			switch in.Mode {
			case 1:
				return !out.Called && out.Err == 0, st
			case 2:
				return !out.Called && out.Err == 1, st
			default:
				return out.Called && out.Seen == in.Val && out.Created && out.Err == 0, c32LState{v: in.Val}
			}
		case "set":
			if !out.Called || out.Empty != st.empty || (!st.empty && out.Seen != st.v) {
				return false, st
			}

			switch in.Mode {
			case 1:
				return out.Err == 0 && (st.empty || out.Ret == st.v), st
			case 2:
				return out.Err == 1, st
			default:
				return out.Err == 0 && out.Ret == in.Val, c32LState{v: in.Val}
			}
		case "empty":
			if !out.Called || out.Empty != st.empty || (!st.empty && out.Seen != st.v) {
				return false, st
			}

			switch in.Mode {
			case 1:
				return out.Err == 0, st
			case 2:
				return out.Err == 1, st
			default:
				return out.Err == 0, c32LState{empty: true}
			}
		}

		return false, st
	},
	Equal: func(a, b interface{}) bool { return a.(c32LState) == b.(c32LState) },
}

func c32RunLocked(r *simkit.Run) {
	nclients := r.Draw("clients", 2, 5)
	nops := r.Draw("ops_per_client", 2, 8)
	cbYields := r.Flag("yield_in_callbacks")

	l := util.EmptyLocked[int]()
	names := []string{"value", "setvalue", "emptyvalue", "get", "getorcreate", "set", "empty", "value", "set"}

	nextVal := 0
	ins := make([][]c32LIn, nclients)

	for c := range ins {
		for i := 0; i < nops; i++ {
			nextVal++
			in := c32LIn{Op: names[r.Choose(len(names))], Val: nextVal}

			switch in.Op {
			case "get":
				in.Mode = []int{0, 0, 2}[r.Choose(3)]
			case "getorcreate", "set", "empty":
				in.Mode = []int{0, 0, 0, 1, 2}[r.Choose(5)]
			}

			ins[c] = append(ins[c], in)
		}
	}

	var ops []porcupine.Operation

	cby := func() {
		if cbYields {
			r.ForceYield("callback")
		}
	}

	for c := 0; c < nclients; c++ {
		c := c

		r.Go(fmt.Sprintf("client%d", c), func() {
			for _, in := range ins[c] {
				var out c32LOut

				cberr := func() error {
					switch in.Mode {
					case 1:
						return util.ErrLockedSetIgnore.Errorf("ignore")
					case 2:
						return errC32
					}

					return nil
				}

				call := r.Seq()

				switch in.Op {
				case "value":
					out.Seen, out.Empty = l.Value()
				case "setvalue":
					l.SetValue(in.Val)
				case "emptyvalue":
					l.EmptyValue()
				case "get":
					out.Err = c32ErrKind(l.Get(func(v int, e bool) error {
						out.Called, out.Seen, out.Empty = true, v, e
						cby()

						return cberr()
					}))
				case "getorcreate":
					out.Err = c32ErrKind(l.GetOrCreate(func(v int, created bool) error {
						out.Called, out.Seen, out.Created = true, v, created
						cby()

						if !created {
							return cberr()
						}

						return nil
					}, func() (int, error) {
						cby()

						return in.Val, cberr()
					}))
				case "set":
					v, err := l.Set(func(old int, e bool) (int, error) {
						out.Called, out.Seen, out.Empty = true, old, e
						cby()

						return in.Val, cberr()
					})
					out.Ret, out.Err = v, c32ErrKind(err)
				case "empty":
					out.Err = c32ErrKind(l.Empty(func(old int, e bool) error {
						out.Called, out.Seen, out.Empty = true, old, e
						cby()

						return cberr()
					}))
				}

				ret := r.Seq()
				ops = append(ops, porcupine.Operation{ClientId: c, Input: in, Call: call, Output: out, Return: ret})
				r.Event(fmt.Sprintf("c%d %s", c, in.Op))
			}
		})
	}

	r.Sched(simkit.SchedOpts{MaxSteps: 4000, Stick: r.DrawStick()})

	if r.Truncated || r.Live() > 0 {
		r.Fail("deadlock", "locked", "clients did not finish")
	}

	r.Checked()

	for _, o := range c32Describe(ops) {
		r.Op("%s", o)
	}

	r.AfterBubble(func() {
		switch porcupine.CheckOperationsTimeout(c32LModel, ops, 30*time.Second) {
		case porcupine.Ok:
			r.Probe("porcupine_ok")
		case porcupine.Unknown:
			r.Probe("porcupine_unknown")
		case porcupine.Illegal:
			r.Probe("porcupine_illegal")
			r.Fail("linearizability", "locked-value", "history of Locked[T] is not linearizable:\n%s", strings.Join(c32Describe(ops), "\n"))
		}
	})
}

func init() {
	simkit.Register(&simkit.Harness{
		ID:          "C32",
		Run:         c32Run,
		Real:        []string{"util.SingleLockedMap", "util.ShardedMap", "util.NewDeepShardedMap", "util.Locked"},
		Stub:        []string{},
		Rule:        "each run draws map kind (single / sharded 2..64 / deep sharded / Locked[T]), 2-6 clients x 2-7 operations over 4 keys with unique written values and callback outcomes (ok/ignore/error/remove); the seeded kernel picks which client proceeds at every simulated lock acquisition and inside callbacks; history checked by porcupine against a sequential map. distinct = distinct event-log hash (operations + schedule); non-trivial = at least one non-zero choice consumed and the oracle ran",
		Assumptions: []string{"Len() is checked only after all clients finished, as the property states", "snapshot reads (Traverse/Map) are modelled as atomic"},
	})
}
