package utilh

import (
	"context"
	"fmt"
	"time"

	"github.com/pkg/errors"
	"github.com/spikeekips/mitum/simkit"
	"github.com/spikeekips/mitum/util"
)

// one registered timer instance
type c34Gen struct {
	id       util.TimerID
	n        int
	interval time.Duration
	maxCalls int // intervalFunc returns 0 from this call count on (0: never)
	endAt    int // callback returns keep=false at this call (-1: never)
	errAt    int // callback returns an error at this call (-1: never)
	slow     time.Duration

	regBefore  time.Time // clock before New was called
	regSeq     int64     // seq after New returned added=true
	added      bool
	replacedBy *c34Gen

	starts     []int64     // seq of callback starts
	startAt    []time.Time // fake time of callback starts
	endAtT     []time.Time // fake time of callback ends
	selfEnded  bool        // callback returned !keep or error, or intervalFunc ran out
	removedSeq int64       // whenRemoved invoked
}

type c34Stop struct {
	ids       map[util.TimerID]bool // nil = all
	exclude   bool                  // ids are the excluded ones (StopOthers)
	call, ret int64
}

func (s c34Stop) covers(id util.TimerID) bool {
	if s.ids == nil {
		return true
	}

	if s.exclude {
		return !s.ids[id]
	}

	return s.ids[id]
}

func c34Run(r *simkit.Run) {
	resolution := []time.Duration{time.Millisecond, 7 * time.Millisecond, 33 * time.Millisecond}[r.Draw("resolution", 0, 2)]
	size := uint64(r.Draw("mapsize", 1, 4))
	nclients := r.Draw("clients", 1, 3)
	nops := r.Draw("ops_per_client", 2, 8)
	ids := []util.TimerID{"a", "b", "c"}[:r.Draw("ids", 1, 3)]

	ts, err := util.NewSimpleTimers(size, resolution)
	if err != nil {
		panic(err)
	}

	ctx, cancel := context.WithCancel(context.Background())
	r.OnEnd(cancel)

	if err := ts.Start(ctx); err != nil {
		panic(err)
	}

	var (
		gens  []*c34Gen
		stops []*c34Stop
	)

	errCb := errors.New("timer callback error")

	newGen := func(id util.TimerID) *c34Gen {
		g := &c34Gen{id: id, n: len(gens), endAt: -1, errAt: -1}
		g.interval = []time.Duration{time.Millisecond, 10 * time.Millisecond, 40 * time.Millisecond, 200 * time.Millisecond}[r.Choose(4)]

		if r.Chance(1, 5) {
			g.maxCalls = 1 + r.Choose(3)
		}

		if r.Chance(1, 6) {
			g.endAt = r.Choose(3)
		}

		if r.Chance(1, 8) {
			g.errAt = r.Choose(3)
		}

		if r.Chance(1, 4) {
			g.slow = []time.Duration{time.Millisecond, 50 * time.Millisecond}[r.Choose(2)]
		}

		gens = append(gens, g)

		return g
	}

	type op struct {
		kind  int // 0 new, 1 stop ids, 2 stop others, 3 stop all, 4 sleep
		gen   *c34Gen
		ids   []util.TimerID
		sleep time.Duration
	}

	plan := make([][]op, nclients)
	for c := range plan {
		for i := 0; i < nops; i++ {
			o := op{kind: []int{0, 0, 0, 1, 1, 2, 3, 4, 4}[r.Choose(9)]}

			switch o.kind {
			case 0:
				o.gen = newGen(ids[r.Choose(len(ids))])
			case 1, 2:
				for _, id := range ids {
					if r.Chance(1, 2) {
						o.ids = append(o.ids, id)
					}
				}

				if len(o.ids) == 0 {
					o.ids = []util.TimerID{ids[0]}
				}
			case 4:
				o.sleep = []time.Duration{time.Millisecond, 15 * time.Millisecond, 100 * time.Millisecond, 500 * time.Millisecond}[r.Choose(4)]
			}

			plan[c] = append(plan[c], o)
		}
	}

	register := func(g *c34Gen) {
		timer := util.NewSimpleTimer(g.id,
			func(n uint64) time.Duration {
				if g.maxCalls > 0 && int(n) >= g.maxCalls {
					return 0
				}

				return g.interval
			},
			func(ctx context.Context, n uint64) (bool, error) {
				g.starts = append(g.starts, r.Seq())
				g.startAt = append(g.startAt, time.Now())
				r.Event(fmt.Sprintf("cb g%d n%d", g.n, n))

				if g.slow > 0 {
					time.Sleep(g.slow)
				}

				r.ForceYield("callback")

				g.endAtT = append(g.endAtT, time.Now())

				switch {
				case int(n) == g.errAt:
					g.selfEnded = true

					return true, errCb
				case int(n) == g.endAt:
					g.selfEnded = true

					return false, nil
				case g.maxCalls > 0 && int(n)+1 >= g.maxCalls:
					g.selfEnded = true
				}

				return true, nil
			},
			func() { g.removedSeq = r.Seq() },
		)

		g.regBefore = time.Now()
		added, err := ts.NewTimer(timer)
		g.added = added && err == nil

		if g.added {
			g.regSeq = r.Seq()
			// a re-registration under a live id replaces the older instance
			for _, o := range gens {
				if o != g && o.id == g.id && o.added && o.replacedBy == nil && o.removedSeq == 0 && o.regSeq < g.regSeq {
					o.replacedBy = g
				}
			}
		}
	}

	for c := 0; c < nclients; c++ {
		c := c

		r.Go(fmt.Sprintf("client%d", c), func() {
			for _, o := range plan[c] {
				switch o.kind {
				case 0:
					register(o.gen)
					r.Event(fmt.Sprintf("c%d new %s g%d", c, o.gen.id, o.gen.n))
				case 1, 2, 3:
					s := &c34Stop{call: r.Seq()}

					switch o.kind {
					case 1:
						s.ids = map[util.TimerID]bool{}
						for _, id := range o.ids {
							s.ids[id] = true
						}

						stops = append(stops, s)
						_ = ts.StopTimers(o.ids)
					case 2:
						s.ids = map[util.TimerID]bool{}
						s.exclude = true

						for _, id := range o.ids {
							s.ids[id] = true
						}

						stops = append(stops, s)
						_ = ts.StopOthers(o.ids)
					case 3:
						stops = append(stops, s)
						_ = ts.StopAllTimers()
					}

					s.ret = r.Seq()
					r.Event(fmt.Sprintf("c%d stop kind%d %v", c, o.kind, o.ids))
				case 4:
					time.Sleep(o.sleep)
					r.ForceYield("after-sleep")
				}
			}
		})
	}

	quanta := []time.Duration{time.Millisecond, 5 * time.Millisecond, 20 * time.Millisecond, 100 * time.Millisecond, 400 * time.Millisecond}
	r.Sched(simkit.SchedOpts{MaxSteps: 20000, ClockDen: 6, Quanta: quanta, MaxSim: 20 * time.Second, Stick: r.DrawStick()})

	clientsDone := r.Live() == 0

	// let timers fire for a while with no client activity
	tail := r.Now() + time.Duration(r.Draw("tail_ms", 0, 600))*time.Millisecond
	r.Sched(simkit.SchedOpts{MaxSteps: 20000, KeepGoing: true, ClockDen: 4, Quanta: quanta, MaxSim: tail, Stick: 1})

	finalStopCall := r.Seq()
	stopped := false
	r.Go("stopper", func() {
		_ = ts.Stop()
		stopped = true
	})
	r.Sched(simkit.SchedOpts{MaxSteps: 20000, KeepGoing: true, Until: func() bool { return stopped }, Quanta: quanta, MaxSim: r.Now() + time.Minute})

	r.Op("resolution=%v clients=%d ops=%d gens=%d stops=%d", resolution, nclients, nops, len(gens), len(stops))

	if !clientsDone || !stopped {
		r.Fail("liveness", "timers", "clients done=%v, Stop returned=%v within the budget", clientsDone, stopped)
	}

	for _, g := range gens {
		if !g.added {
			continue
		}

		r.Checked()

		// (3) never before the interval has elapsed
		for i := range g.startAt {
			var notBefore time.Time
			if i == 0 {
				notBefore = g.regBefore.Add(g.interval)
			} else if i-1 < len(g.endAtT) {
				notBefore = g.endAtT[i-1].Add(g.interval)
			}

			if g.startAt[i].Before(notBefore) {
				r.Fail("early-callback", "before-interval", "timer %s gen %d call %d started at %v, not allowed before %v (interval %v)",
					g.id, g.n, i, g.startAt[i].Sub(g.regBefore), notBefore.Sub(g.regBefore), g.interval)
			}
		}

		// (1) no callback start after the Stop* call that removed this instance
		// returned. "Stopped" means: its whenRemoved ran while a stop covering
		// its id was in progress. (An instance that was replaced by a later
		// New under the same id is not "stopped" by later stops of that id.)
		for _, s := range stops {
			if !s.covers(g.id) || s.ret == 0 || g.removedSeq == 0 || g.removedSeq < s.call || g.removedSeq > s.ret {
				continue
			}

			for _, st := range g.starts {
				if st > s.ret {
					r.Fail("callback-after-stop", "started-after-stop-returned", "timer %s gen %d (registered at seq %d, removed at %d) started a callback at seq %d after the stop that removed it returned at seq %d",
						g.id, g.n, g.regSeq, g.removedSeq, st, s.ret)
				}
			}
		}

		// (2) removed only by a covering stop in flight, by itself, or by the final Stop
		if g.removedSeq != 0 && g.removedSeq < finalStopCall && !g.selfEnded {
			legit := false

			for _, s := range stops {
				if s.covers(g.id) && s.call < g.removedSeq && (s.ret == 0 || g.removedSeq < s.ret) {
					legit = true
				}
			}

			if !legit {
				r.Probe("removed_without_stop")
				r.Fail("removed-by-other", "live-timer-removed-without-stop", "timer %s gen %d (registered seq %d) was removed at seq %d although no stop covering it was in progress and its callback never ended it; gens=%s",
					g.id, g.n, g.regSeq, g.removedSeq, c34Describe(gens))
			}
		}
	}
}

func c34Describe(gens []*c34Gen) string {
	s := ""
	for _, g := range gens {
		s += fmt.Sprintf("[g%d id=%s added=%v reg=%d removed=%d starts=%v selfEnded=%v] ", g.n, g.id, g.added, g.regSeq, g.removedSeq, g.starts, g.selfEnded)
	}

	return s
}

func init() {
	simkit.Register(&simkit.Harness{
		ID:          "C34",
		Run:         c34Run,
		Real:        []string{"util.SimpleTimers", "util.SimpleTimer", "util.ContextDaemon", "util.NewErrCallbackJobWorker", "util.LockedMap"},
		Stub:        []string{"timer callbacks and interval functions (harness closures; may be slow on the fake clock, end themselves or fail)"},
		Rule:        "each run draws resolution, map size, 1-3 clients x 2-8 operations (New with interval/self-ending/failing/slow callbacks, StopTimers, StopOthers, StopAllTimers, sleeps) over 1-3 reused timer ids; the real timer loop runs on the fake clock and the kernel interleaves it, its worker jobs and the clients at every lock operation. distinct = distinct event-log hash; non-trivial = non-zero choice consumed and at least one registered timer judged",
		Assumptions: []string{"preemption points are lock operations, channel operations, goroutine starts and harness callbacks; the instruction-level window between SimpleTimer.run's context check and the callback call is not split"},
	})
}
