package storeh

import (
	"context"
	"fmt"
	"strings"
	"time"

	"github.com/spikeekips/mitum/base"
	"github.com/spikeekips/mitum/simkit"
	"github.com/spikeekips/mitum/vh/simdisk"
)

type c19Version struct {
	model   *dbModel
	startLo int64 // invoke seq of the operation that produced it
	endHi   int64 // return seq of the operation that replaced it (0: still current)
	exp     readSet
}

func c19Run(r *simkit.Run) {
	disk := simdisk.New()
	disk.NoLog = true

	// blocks with more records than one batch of the permanent merge holds (333)
	manyKeys := r.Chance(1, 8) || (r.Tier == "thorough" && r.Chance(1, 4))

	// cache sizes: 1 evicts at every Set (deterministically); a larger cache that evicts does so in Go map order
	// (bluele/gcache LFU), which no seed controls - 100 never evicts with the handful of keys of a small-block run,
	// 4000 never evicts with big blocks
	big := 100
	if manyKeys {
		big = 4000
	}

	sys, err := openDBSys(disk, []int{0, 1, big}[r.Draw("state_cache", 0, 2)])
	if sys != nil {
		sys.bwCache = []int{0, 1, 1, big}[r.Draw("block_write_state_cache", 0, 3)]
	}
	if err != nil {
		panic(err)
	}

	r.OnEnd(sys.close)

	nblocks := r.Draw("blocks", 1, 7)
	nreaders := r.Draw("readers", 0, 3)
	useTicker := r.Flag("merge_ticker")
	allowRemove := r.Flag("remove_blocks")
	gen := newDBGen(r, r.Draw("state_keys", 1, 5))

	if manyKeys {
		gen.manyKeys = 340
	}

	// the chain is generated on the fly because RemoveBlocks rewinds the height
	var chain []*dbBlock

	type wstep struct {
		kind  int // 0 write block, 1 MergeAllPermanent, 2 sleep, 3 RemoveBlocks
		sleep time.Duration
		back  int
	}

	nsteps := nblocks + r.Draw("extra_steps", 0, 5)
	steps := make([]wstep, 0, nsteps)
	written := 0

	for i := 0; i < nsteps; i++ {
		s := wstep{kind: []int{0, 0, 0, 1, 2, 3}[r.Choose(6)]}
		if written >= nblocks && s.kind == 0 {
			s.kind = 2
		}

		if s.kind == 3 && !allowRemove {
			s.kind = 0
		}

		if s.kind == 0 {
			written++
		}

		s.sleep = []time.Duration{100 * time.Millisecond, 2 * time.Second, 5 * time.Second, 9 * time.Second}[r.Choose(4)]
		s.back = r.Choose(3)
		steps = append(steps, s)
	}

	// pre-generate enough blocks for the universe of probes (heights may be re-used after RemoveBlocks with new content)
	model := &dbModel{}
	versions := []*c19Version{{model: &dbModel{}, startLo: 0}}
	removedEver := false

	var universe dbUniverse

	ctx, cancel := context.WithCancel(context.Background())
	r.OnEnd(cancel)

	if useTicker {
		if err := sys.center.Start(ctx); err != nil {
			panic(err)
		}
	}

	// a change is announced before it starts (readers may already observe it
	// while the writer is still inside the call) and closes the versions it
	// replaces when it returns.
	beginChange := func(candidates ...*dbModel) (first int) {
		first = len(versions)
		call := r.Seq()

		for _, c := range candidates {
			versions = append(versions, &c19Version{model: c, startLo: call})
		}

		return first
	}

	endChange := func(first int, final *dbModel) {
		ret := r.Seq()

		for i, v := range versions {
			switch {
			case i < first:
				if v.endHi == 0 {
					v.endHi = ret
				}
			case v.model != final:
				// an intermediate (or not taken) candidate: only observable while the call ran
				v.endHi = ret
			}
		}
	}

	var exactU func(what string, universe dbUniverse)

	exact := func(what string) { exactU(what, universe) }

	exactU = func(what string, universe dbUniverse) {
		got, err := actualReads(sys.center, universe)
		if err != nil {
			r.Fail("read-error", "error", "%s: %v", what, err)
		}

		want := model.expected(universe)
		r.Checked()

		if d := got.diff(want); d != "" {
			kinds := map[string]bool{}
			for _, part := range strings.Split(d, "; ") {
				if i := strings.Index(part, "/"); i > 0 {
					kinds[part[:i]] = true
				} else if i := strings.Index(part, ":"); i > 0 {
					kinds[part[:i]] = true
				}
			}

			var ks []string
			for _, k := range []string{"last-blockmap", "blockmap", "proof-by-block", "proof-by-suffrage", "last-proof", "state", "instate-op", "known-op", "policy"} {
				if kinds[k] {
					ks = append(ks, k)
				}
			}

			r.Fail("reads-differ-from-model", strings.Join(ks, "+"), "%s (top=%d, removed-blocks-before=%v): %s", what, model.top(), removedEver, d)
		}
	}

	writerDone := false

	var removeIntervals [][2]int64

	r.Go("writer", func() {
		defer func() { writerDone = true }()

		for _, s := range steps {
			switch s.kind {
			case 0:
				h := model.top() + 1
				if model.top() == base.NilHeight {
					h = base.GenesisHeight
				}

				b := gen.block(h)
				chain = append(chain, b)
				universe = universeOf(chain)

				next := &dbModel{blocks: append(append([]*dbBlock(nil), model.blocks...), b)}
				first := beginChange(next)

				if err := sys.writeBlock(b); err != nil {
					r.Fail("write-error", "error", "write block %d: %v", h, err)
				}

				model.blocks = append(model.blocks, b)
				endChange(first, next)
				r.Op("write block %d (%d states, suffrage=%v, policy=%v)", h, len(b.states), b.sufst != nil, b.policy != nil)
				exact(fmt.Sprintf("after writing block %d", h))
			case 1:
				if err := sys.center.MergeAllPermanent(); err != nil {
					r.Fail("merge-error", "error", "MergeAllPermanent: %v", err)
				}

				r.Op("MergeAllPermanent")
				r.Probe("merge_all_permanent")
				exact("after MergeAllPermanent")

				if gen.manyKeys > 0 {
					// every record of the big blocks, not the sample the readers use
					exactU("after MergeAllPermanent, every key", fullUniverseOf(chain))
					r.Probe("every_key_read_after_merge")
				}
			case 2:
				time.Sleep(s.sleep)
				r.Op("sleep %v", s.sleep)
				exact(fmt.Sprintf("after %v of ticker time", s.sleep))
			case 3:
				if model.top() < base.GenesisHeight {
					continue
				}

				h := model.top() - base.Height(s.back)
				if h < base.GenesisHeight {
					h = base.GenesisHeight
				}

				// temps are removed one by one from the top: every truncation down to h-1 is a legal intermediate view
				var cands []*dbModel
				for t := model.top() - 1; t >= h-1; t-- {
					c := &dbModel{}
					for _, b := range model.blocks {
						if b.h <= t {
							c.blocks = append(c.blocks, b)
						}
					}

					cands = append(cands, c)
				}

				cur := &dbModel{blocks: append([]*dbBlock(nil), model.blocks...)}
				first := beginChange(append(cands, cur)...)
				removeIntervals = append(removeIntervals, [2]int64{r.Seq(), 0})

				removed, err := sys.center.RemoveBlocks(h)
				removeIntervals[len(removeIntervals)-1][1] = r.Seq()
				if err != nil {
					r.Fail("remove-error", "error", "RemoveBlocks(%d): %v", h, err)
				}

				r.Op("RemoveBlocks(%d) -> %v", h, removed)

				if removed {
					removedEver = true
					r.Fault("remove_blocks")

					var keep []*dbBlock
					for _, b := range model.blocks {
						if b.h < h {
							keep = append(keep, b)
						}
					}

					model.blocks = keep
					// the generator's suffrage height follows the surviving chain
					gen.sufH = base.NilHeight
					gen.lastSuf = nil

					for _, b := range keep {
						if b.sufst != nil {
							gen.sufH = b.sufH
							gen.lastSuf = b.sufst
						}
					}

					endChange(first, cands[len(cands)-1])
				} else {
					endChange(first, cur)
				}

				exact(fmt.Sprintf("after RemoveBlocks(%d)=%v", h, removed))
			}
		}

		exactU("at the end of the history, every key", fullUniverseOf(chain))
	})

	type observation struct {
		call, ret int64
		got       readSet
	}

	for i := 0; i < nreaders; i++ {
		i := i

		r.Go(fmt.Sprintf("reader%d", i), func() {
			lastHeights := map[string]base.Height{}

			for n := 0; n < 40 && !writerDone; n++ {
				if len(universe.keys) == 0 {
					r.ForceYield("reader-wait")

					continue
				}

				u := universe
				call := r.Seq()

				got, err := actualReads(sys.center, u)
				ret := r.Seq()

				// the statement constrains concurrent reads during merges; a read
				// that overlaps a RemoveBlocks call (a rollback) is not judged
				overlapsRemove := false

				for _, iv := range removeIntervals {
					if iv[0] <= ret && (iv[1] == 0 || iv[1] >= call) {
						overlapsRemove = true
					}
				}

				if overlapsRemove {
					r.Probe("concurrent_snapshot_during_remove_not_judged")

					continue
				}

				if err != nil {
					r.Fail("read-error", "concurrent", "reader: %v", err)
				}

				r.Probe("concurrent_snapshot")

				// every item equals the model at some moment between invoke and return
				var allowed []readSet

				for _, v := range versions {
					if v.startLo <= ret && (v.endHi == 0 || v.endHi >= call) {
						allowed = append(allowed, v.model.expected(u))
					}
				}

				r.Checked()

				for k, g := range got.items {
					ok := false

					for _, a := range allowed {
						if a.items[k] == g {
							ok = true

							break
						}
					}

					if !ok {
						var wants []string
						for _, a := range allowed {
							wants = append(wants, a.items[k])
						}

						kind := k
						if j := strings.Index(k, "/"); j > 0 {
							kind = k[:j]
						}

						r.Fail("concurrent-read-not-in-model", kind, "reader %d read %s = %.700s between seq %d and %d; the model held %q in that interval (removed-blocks-before=%v)", i, k, g, call, ret, wants, removedEver)
					}
				}

				// never older than one already returned (no rollback happened)
				if !removedEver {
					for k, g := range got.items {
						if !strings.HasPrefix(k, "state/") || g == "none" {
							continue
						}

						var h int64
						fmt.Sscanf(g[strings.LastIndex(g, "@")+1:], "%d", &h)

						if old, ok := lastHeights[k]; ok && base.Height(h) < old {
							r.Fail("state-went-back", "concurrent", "reader %d saw %s at height %d after having seen height %d", i, k, h, old)
						}

						lastHeights[k] = base.Height(h)
					}
				}

				if r.Chance(1, 3) {
					time.Sleep(time.Duration(1+r.Choose(3000)) * time.Millisecond)
				}
			}
		})
	}

	r.Sched(simkit.SchedOpts{MaxSteps: 3000000, Stick: r.DrawStick(), ClockDen: 50, MaxSim: 3 * time.Hour,
		Quanta: []time.Duration{10 * time.Millisecond, 500 * time.Millisecond, 2 * time.Second, 3 * time.Second, 7 * time.Second}})

	if r.Unfinished() {
		r.Fail("liveness", "database", "writer/readers did not finish (live=%d)", r.Live())
	}

	if useTicker {
		stopped := false
		r.Go("stop-center", func() { _ = sys.center.Stop(); stopped = true })
		r.Sched(simkit.SchedOpts{MaxSteps: 200000, KeepGoing: true, Until: func() bool { return stopped }, MaxSim: r.Now() + time.Hour})
	}
}

func init() {
	simkit.Register(&simkit.Harness{
		ID:          "C19",
		Run:         c19Run,
		Real:        []string{"isaacdatabase.Center", "isaacdatabase.LeveldbPermanent", "isaacdatabase.LeveldbBlockWrite", "isaacdatabase.TempLeveldb", "leveldbstorage", "goleveldb over simdisk", "isaacblock.SuffrageProof", "util.BaseJobWorker"},
		Stub:        []string{"block maps/manifests are base.DummyBlockMap/DummyManifest (test-tagged types of the repository); generic states carry base.DummyStateValue"},
		Rule:        "each run draws a chain of 1-7 blocks over 1-5 re-written state keys (plus suffrage and network-policy states, in-state and known operations; in 1/8 of the runs, thorough 1/3, also blocks with more records than the 333 a batch of the permanent merge holds, every record of which is read after each merge and at the end), a writer that interleaves block writes with MergeAllPermanent, sleeps that let the real 2 s merge ticker and temp clean-up run on the fake clock, and RemoveBlocks; after every writer step every read of the statement is compared exactly with the model (the slice of committed blocks). 0-3 concurrent reader tasks take full read snapshots; every item must equal the model at some moment between invoke and return, and state heights never go back while no block was removed. distinct = event-log hash",
		Assumptions: []string{"a concurrent snapshot is judged item by item against all model versions alive between its invoke and return"},
	})
}
