package storeh

import (
	"context"
	"fmt"
	"strings"

	"github.com/spikeekips/mitum/base"
	"github.com/spikeekips/mitum/isaac"
	"github.com/spikeekips/mitum/simkit"
	"github.com/spikeekips/mitum/util"
	"github.com/spikeekips/mitum/util/valuehash"
	"github.com/spikeekips/mitum/vh/common"
	"github.com/spikeekips/mitum/vh/simdisk"
)

// pool contents that must survive a reopen
type c20Pool struct {
	ops       []isaac.DummyOperation
	ballots   []base.Ballot
	proposals []base.ProposalSignFact
}

func c20PoolReads(sys *dbSys, p *c20Pool) (map[string]string, error) {
	out := map[string]string{}

	for i, op := range p.ops {
		got, found, err := sys.pool.Operation(context.Background(), op.Hash())
		if err != nil {
			return nil, fmt.Errorf("pool.Operation: %w", err)
		}

		v := "none"
		if found {
			v = string(mustMarshal(got))
		}

		out[fmt.Sprintf("pool-op/%d", i)] = v

		enchint, _, body, found, err := sys.pool.OperationBytes(context.Background(), op.Hash())
		if err != nil {
			return nil, fmt.Errorf("pool.OperationBytes: %w", err)
		}

		v = "none"
		if found {
			v = enchint + "|" + string(body)
		}

		out[fmt.Sprintf("pool-op-bytes/%d", i)] = v
	}

	for i, bl := range p.ballots {
		got, found, err := sys.pool.Ballot(bl.Point().Point, bl.Point().Stage(), isaac.IsSuffrageConfirmBallotFact(bl.SignFact().Fact()))
		if err != nil {
			return nil, fmt.Errorf("pool.Ballot: %w", err)
		}

		v := "none"
		if found {
			v = string(mustMarshal(got))
		}

		out[fmt.Sprintf("pool-ballot/%d", i)] = v
	}

	for i, pr := range p.proposals {
		got, found, err := sys.pool.Proposal(pr.Fact().Hash())
		if err != nil {
			return nil, fmt.Errorf("pool.Proposal: %w", err)
		}

		v := "none"
		if found {
			v = string(mustMarshal(got))
		}

		out[fmt.Sprintf("pool-proposal/%d", i)] = v

		fact := pr.ProposalFact()

		got, found, err = sys.pool.ProposalByPoint(fact.Point(), fact.Proposer(), fact.PreviousBlock())
		if err != nil {
			return nil, fmt.Errorf("pool.ProposalByPoint: %w", err)
		}

		v = "none"
		if found {
			v = string(mustMarshal(got))
		}

		out[fmt.Sprintf("pool-proposal-by-point/%d", i)] = v
	}

	return out, nil
}

func c20Run(r *simkit.Run) {
	disk := simdisk.New()
	disk.NoLog = true

	stcache := []int{0, 1, 100}[r.Draw("state_cache", 0, 2)]

	sys, err := openDBSys(disk, stcache)
	if sys != nil {
		// the block-write state cache launch gives every new block (1: every Set evicts, deterministically)
		sys.bwCache = []int{0, 1, 1, 100}[r.Draw("block_write_state_cache", 0, 3)]
	}

	if err != nil {
		panic(err)
	}

	r.OnEnd(func() { sys.close() })

	nblocks := r.Draw("blocks", 1, 6)
	gen := newDBGen(r, r.Draw("state_keys", 1, 4))
	model := &dbModel{}
	pool := &c20Pool{}

	var chain []*dbBlock

	// decisions drawn up front
	mergeAfter := make([]bool, nblocks)
	poolAfter := make([]int, nblocks)

	for i := range mergeAfter {
		mergeAfter[i] = r.Chance(1, 2)
		poolAfter[i] = r.Choose(3)
	}

	reopenPoints := 0

	// half of the histories are re-opened at every quiescent point (the enumeration); in the others the process
	// lives longer - its caches age over several blocks and merges - and is re-opened at tape-chosen points only
	everyPoint := r.Flag("reopen_at_every_point")

	// every quiescent point: snapshot, clean close, reopen with launch's sequence, snapshot, compare
	reopen := func(where string) {
		u := universeOf(chain)

		if !everyPoint && !r.Chance(1, 3) {
			// the process lives on: it is only read (which also warms its caches) and compared with the model
			r.Probe("quiescent_point_without_reopen")

			got, err := actualReads(sys.center, u)
			if err != nil {
				r.Fail("read-error", "before-close", "%s: %v", where, err)
			}

			if d := got.diff(model.expected(u)); d != "" {
				r.Fail("reads-differ-from-model", "before-close", "%s: the reads of the running process differ from the model: %s", where, d)
			}

			return
		}

		before, err := actualReads(sys.center, u)
		if err != nil {
			r.Fail("read-error", "before-close", "%s: %v", where, err)
		}

		beforeBytes, err := bytesReads(sys.center, u)
		if err != nil {
			r.Fail("read-error", "before-close", "%s: %v", where, err)
		}

		beforePool, err := c20PoolReads(sys, pool)
		if err != nil {
			r.Fail("read-error", "before-close", "%s: %v", where, err)
		}

		if d := before.diff(model.expected(u)); d != "" {
			r.Fail("reads-differ-from-model", "before-close", "%s: before closing the reads already differ from the model: %s", where, d)
		}

		sys.close()

		nsys, err := openDBSys(sys.disk.Clone(), stcache)
		if err != nil {
			r.Fail("reopen-error", "error", "%s: reopen failed: %v", where, err)
		}

		nsys.disk.NoLog = true
		nsys.bwCache = sys.bwCache
		sys = nsys
		reopenPoints++
		r.Fault("clean_close_reopen")

		after, err := actualReads(sys.center, u)
		if err != nil {
			r.Fail("read-error", "after-reopen", "%s: %v", where, err)
		}

		afterBytes, err := bytesReads(sys.center, u)
		if err != nil {
			r.Fail("read-error", "after-reopen", "%s: %v", where, err)
		}

		afterPool, err := c20PoolReads(sys, pool)
		if err != nil {
			r.Fail("read-error", "after-reopen", "%s: %v", where, err)
		}

		r.Checked()

		if d := after.diff(before); d != "" {
			r.Fail("objects-differ-after-reopen", kindsOf(d), "%s: object reads differ after reopen: %s", where, d)
		}

		if d := diffMaps(afterBytes, beforeBytes); d != "" {
			r.Fail("bytes-differ-after-reopen", kindsOf(d), "%s: raw-bytes reads differ after reopen: %s", where, d)
		}

		if d := diffMaps(afterPool, beforePool); d != "" {
			r.Fail("pool-differs-after-reopen", kindsOf(d), "%s: pool contents differ after reopen: %s", where, d)
		}
	}

	r.Go("history", func() {
		for i := 0; i < nblocks; i++ {
			h := base.GenesisHeight + base.Height(i)
			b := gen.block(h)
			chain = append(chain, b)

			if err := sys.writeBlock(b); err != nil {
				r.Fail("write-error", "error", "write block %d: %v", h, err)
			}

			model.blocks = append(model.blocks, b)
			r.Op("write block %d (%d states, suffrage=%v, policy=%v)", h, len(b.states), b.sufst != nil, b.policy != nil)

			for j := 0; j < poolAfter[i]; j++ {
				signer := common.Local(30 + len(pool.ops))

				op, err := isaac.NewDummyOperation(isaac.NewDummyOperationFact(util.UUID().Bytes(), valuehash.RandomSHA256()), signer.Privatekey(), common.NetworkID)
				if err != nil {
					panic(err)
				}

				if _, err := sys.pool.SetOperation(context.Background(), op); err != nil {
					r.Fail("pool-error", "set", "SetOperation: %v", err)
				}

				pool.ops = append(pool.ops, op)

				point := base.RawPoint(int64(h)+1, uint64(j))
				sf := isaac.NewINITBallotSignFact(isaac.NewINITBallotFact(point, valuehash.RandomSHA256(), valuehash.RandomSHA256(), nil))
				_ = sf.NodeSign(signer.Privatekey(), common.NetworkID, signer.Address())
				bl := isaac.NewINITBallot(nil, sf, nil)

				if _, err := sys.pool.SetBallot(bl); err != nil {
					r.Fail("pool-error", "set", "SetBallot: %v", err)
				}

				pool.ballots = append(pool.ballots, bl)

				pr := isaac.NewProposalSignFact(isaac.NewProposalFact(point, signer.Address(), valuehash.RandomSHA256(), nil))
				_ = pr.Sign(signer.Privatekey(), common.NetworkID)

				if _, err := sys.pool.SetProposal(pr); err != nil {
					r.Fail("pool-error", "set", "SetProposal: %v", err)
				}

				pool.proposals = append(pool.proposals, pr)
			}

			reopen(fmt.Sprintf("after block %d", h))

			if mergeAfter[i] {
				if err := sys.center.MergeAllPermanent(); err != nil {
					r.Fail("merge-error", "error", "MergeAllPermanent: %v", err)
				}

				r.Op("MergeAllPermanent")
				reopen(fmt.Sprintf("after merging to permanent (top %d)", h))
			}
		}
	})

	r.Sched(simkit.SchedOpts{MaxSteps: 5000000})

	if r.Unfinished() {
		r.Fail("liveness", "database", "history did not finish")
	}

	r.ProbeN("reopen_points", reopenPoints)
}

func kindsOf(d string) string {
	kinds := map[string]bool{}

	for _, part := range strings.Split(d, "; ") {
		k := part
		if i := strings.Index(k, ":"); i > 0 {
			k = k[:i]
		}

		if i := strings.Index(k, "/"); i > 0 {
			k = k[:i]
		}

		if k != "" {
			kinds[k] = true
		}
	}

	var ks []string
	for _, k := range []string{"last-blockmap", "blockmap", "proof-by-block", "proof-by-suffrage", "last-proof", "state", "instate-op", "known-op", "policy",
		"last-blockmap-bytes", "blockmap-bytes", "last-proof-bytes", "proof-bytes", "state-bytes",
		"pool-op", "pool-op-bytes", "pool-ballot", "pool-proposal", "pool-proposal-by-point"} {
		if kinds[k] {
			ks = append(ks, k)
		}
	}

	return strings.Join(ks, "+")
}

var _ = simdisk.New

func init() {
	simkit.Register(&simkit.Harness{
		ID:          "C20",
		Run:         c20Run,
		Real:        []string{"isaacdatabase.Center/LeveldbPermanent/LeveldbBlockWrite/TempLeveldb/TempPool wired and re-opened with launch.LoadDatabase's constructor sequence", "leveldbstorage", "goleveldb over simdisk"},
		Stub:        []string{"disk: simdisk (clean close = goleveldb Close, reopen on a clone of the simulated disk)", "dummy block maps / state values"},
		Rule:        "each run draws a chain of 1-6 blocks (suffrage and policy changes, re-written keys), pool contents added after each block, and whether the temp databases are merged to the permanent store after each block; at EVERY quiescent point of the history (after each block, after each merge - enumerated, not sampled) all object reads, all *Bytes reads and the pool contents are taken, the storage is closed and re-opened with launch's sequence (NewLeveldbPermanent, NewCenter->loadTemps, MergeAllPermanent, CleanSyncPool, NewTempPool), and the same reads must be identical byte for byte. distinct = event-log hash; non-trivial = non-zero choice and at least one reopen compared",
		Assumptions: []string{"clean close: everything goleveldb wrote to the simulated disk survives"},
	})
}
