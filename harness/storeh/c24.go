// Package storeh holds the storage-group harnesses (pool, databases, prefix storage).
package storeh

import (
	"bytes"
	"context"
	"fmt"
	"strings"
	"time"

	"github.com/anishathalye/porcupine"
	"github.com/spikeekips/mitum/base"
	"github.com/spikeekips/mitum/isaac"
	isaacdatabase "github.com/spikeekips/mitum/isaac/database"
	"github.com/spikeekips/mitum/simkit"
	leveldbstorage "github.com/spikeekips/mitum/storage/leveldb"
	"github.com/spikeekips/mitum/util"
	"github.com/spikeekips/mitum/util/valuehash"
	"github.com/spikeekips/mitum/vh/common"
)

type c24In struct {
	Op  string // set, get, getpoint
	Key int
	Val int
	Sub int // proposals: which of the two facts of the point key (set, get)
}

type c24Out struct{ Val int }

// write-once register per key
var c24Model = porcupine.Model{
	Partition: func(history []porcupine.Operation) [][]porcupine.Operation {
		m := map[int][]porcupine.Operation{}
		var keys []int

		for _, o := range history {
			k := o.Input.(c24In).Key
			if _, ok := m[k]; !ok {
				keys = append(keys, k)
			}

			m[k] = append(m[k], o)
		}

		out := make([][]porcupine.Operation, 0, len(keys))
		for _, k := range keys {
			out = append(out, m[k])
		}

		return out
	},
	Init: func() interface{} { return 0 },
	Step: func(state, input, output interface{}) (bool, interface{}) {
		st, in, out := state.(int), input.(c24In), output.(c24Out)

		switch in.Op {
		case "set":
			if st == 0 {
				return true, in.Val
			}

			return true, st
		default:
			return out.Val == st, st
		}
	},
	Equal: func(a, b interface{}) bool { return a.(int) == b.(int) },
}

// proposals: per (point, proposer, previous block) two facts; a write-once register per fact, and the lookup by point
// answers with the fact that was stored (for the first time) last
type c24PState struct {
	Reg  [2]int
	Last int // 0 none, 1 or 2: fact index + 1
}

var c24ModelP = porcupine.Model{
	Partition: c24Model.Partition,
	Init:      func() interface{} { return c24PState{} },
	Step: func(state, input, output interface{}) (bool, interface{}) {
		st, in, out := state.(c24PState), input.(c24In), output.(c24Out)

		switch in.Op {
		case "set":
			if st.Reg[in.Sub] == 0 {
				st.Reg[in.Sub] = in.Val
				st.Last = in.Sub + 1
			}

			return true, st
		case "getpoint":
			want := 0
			if st.Last > 0 {
				want = st.Reg[st.Last-1]
			}

			return out.Val == want, st
		default:
			return out.Val == st.Reg[in.Sub], st
		}
	},
	Equal: func(a, b interface{}) bool { return a.(c24PState) == b.(c24PState) },
}

type c24BallotKey struct {
	point base.Point
	stage base.Stage
	sc    bool
}

func c24Describe(ops []porcupine.Operation) string {
	var sb strings.Builder
	for _, o := range ops {
		fmt.Fprintf(&sb, "c%d [%d,%d] %+v -> %+v\n", o.ClientId, o.Call, o.Return, o.Input, o.Output)
	}

	return sb.String()
}

func c24Run(r *simkit.Run) {
	encs, enc := common.Encs()
	st := leveldbstorage.NewMemStorage()

	pool, err := isaacdatabase.NewTempPool(st, encs, enc, []int{0, 1, 100}[r.Draw("opcache", 0, 2)])
	if err != nil {
		panic(err)
	}

	r.OnEnd(func() { _ = st.Close() })

	mode := r.Draw("mode", 0, 1) // 0 ballots, 1 proposals
	nclients := r.Draw("clients", 2, 4)
	nops := r.Draw("ops_per_client", 2, 6)
	nkeys := r.Draw("keys", 1, 3)
	baseHeight := base.Height(33)

	marshal := func(v interface{}) []byte {
		b, err := enc.Marshal(v)
		if err != nil {
			panic(err)
		}

		return b
	}

	type attempt struct {
		key   int
		sub   int
		val   int
		bl    base.Ballot
		pr    base.ProposalSignFact
		bytes []byte
	}

	var (
		bkeys    []c24BallotKey
		attempts []*attempt
		byFact   = map[string]*attempt{} // ballot fact hash / proposal sign bytes -> attempt
	)

	// ---- generate keys and attempts up front ----
	type prKey struct {
		point    base.Point
		proposer base.Address
		prev     util.Hash
		facts    [2]isaac.ProposalFact
	}

	var pkeys []prKey

	for k := 0; k < nkeys; k++ {
		point := base.RawPoint(int64(baseHeight)+int64(r.Choose(2)), uint64(r.Choose(2)))

		if mode == 0 {
			bk := c24BallotKey{point: point, stage: []base.Stage{base.StageINIT, base.StageACCEPT}[r.Choose(2)]}
			if bk.stage == base.StageINIT && r.Chance(1, 3) {
				bk.sc = true
			}

			dup := false
			for _, o := range bkeys {
				if o == bk {
					dup = true
				}
			}

			if dup {
				continue
			}

			bkeys = append(bkeys, bk)
		} else {
			proposer := common.Local(k).Address()
			prev := valuehash.RandomSHA256()
			pk := prKey{point: point, proposer: proposer, prev: prev}
			for f := range pk.facts {
				pk.facts[f] = isaac.NewProposalFact(point, proposer, prev, [][2]util.Hash{{valuehash.RandomSHA256(), valuehash.RandomSHA256()}})
			}

			pkeys = append(pkeys, pk)
		}
	}

	nk := len(bkeys)
	if mode == 1 {
		nk = len(pkeys)
	}

	newAttempt := func(key int) *attempt {
		a := &attempt{key: key, val: len(attempts) + 1}
		signer := common.Local(10 + len(attempts))

		if mode == 0 {
			bk := bkeys[key]

			switch {
			case bk.sc:
				fact := isaac.NewSuffrageConfirmBallotFact(bk.point, valuehash.RandomSHA256(), valuehash.RandomSHA256(), []util.Hash{valuehash.RandomSHA256()})
				sf := isaac.NewINITBallotSignFact(fact)
				if err := sf.NodeSign(signer.Privatekey(), common.NetworkID, signer.Address()); err != nil {
					panic(err)
				}

				a.bl = isaac.NewINITBallot(nil, sf, nil)
			case bk.stage == base.StageINIT:
				fact := isaac.NewINITBallotFact(bk.point, valuehash.RandomSHA256(), valuehash.RandomSHA256(), nil)
				sf := isaac.NewINITBallotSignFact(fact)
				if err := sf.NodeSign(signer.Privatekey(), common.NetworkID, signer.Address()); err != nil {
					panic(err)
				}

				a.bl = isaac.NewINITBallot(nil, sf, nil)
			default:
				fact := isaac.NewACCEPTBallotFact(bk.point, valuehash.RandomSHA256(), valuehash.RandomSHA256(), nil)
				sf := isaac.NewACCEPTBallotSignFact(fact)
				if err := sf.NodeSign(signer.Privatekey(), common.NetworkID, signer.Address()); err != nil {
					panic(err)
				}

				a.bl = isaac.NewACCEPTBallot(nil, sf, nil)
			}

			a.bytes = marshal(a.bl)
			byFact[a.bl.SignFact().Fact().Hash().String()] = a
		} else {
			a.sub = 0
			if r.Chance(1, 3) { // a second, different fact for the same (point, proposer, previous block)
				a.sub = 1
			}

			fs := isaac.NewProposalSignFact(pkeys[key].facts[a.sub])
			if err := fs.Sign(signer.Privatekey(), common.NetworkID); err != nil {
				panic(err)
			}

			a.pr = fs
			a.bytes = marshal(fs)
			byFact[string(a.bytes)] = a
		}

		attempts = append(attempts, a)

		return a
	}

	type planned struct {
		in c24In
		a  *attempt
	}

	plan := make([][]planned, nclients)
	for c := range plan {
		for i := 0; i < nops; i++ {
			key := r.Choose(nk)

			switch r.Choose(5) {
			case 0, 1, 2:
				a := newAttempt(key)
				plan[c] = append(plan[c], planned{in: c24In{Op: "set", Key: key, Val: a.val, Sub: a.sub}, a: a})
			case 3:
				sub := 0
				if mode == 1 && r.Chance(1, 3) {
					sub = 1
				}

				plan[c] = append(plan[c], planned{in: c24In{Op: "get", Key: key, Sub: sub}})
			default:
				op := "get"
				if mode == 1 {
					op = "getpoint"
				}

				plan[c] = append(plan[c], planned{in: c24In{Op: op, Key: key}})
			}
		}
	}

	var ops []porcupine.Operation

	// identify what a lookup returned; "changed" when it is none of the submitted objects byte for byte
	identifyBallot := func(bl base.Ballot) int {
		a, ok := byFact[bl.SignFact().Fact().Hash().String()]
		if !ok || !bytes.Equal(marshal(bl), a.bytes) {
			r.Fail("returned-changed", "ballot", "Ballot() returned a ballot that is not byte-identical to any submitted one: %s", marshal(bl))

			return -1
		}

		return a.val
	}

	identifyProposal := func(pr base.ProposalSignFact) int {
		a, ok := byFact[string(marshal(pr))]
		if !ok {
			r.Fail("returned-changed", "proposal", "proposal lookup returned a proposal that is not byte-identical to any submitted one: %s", marshal(pr))

			return -1
		}

		return a.val
	}

	lookup := func(in c24In) c24Out {
		if mode == 0 {
			bk := bkeys[in.Key]

			bl, found, err := pool.Ballot(bk.point, bk.stage, bk.sc)
			if err != nil {
				r.Fail("lookup-error", "ballot", "Ballot(): %v", err)
			}

			if !found {
				return c24Out{}
			}

			return c24Out{Val: identifyBallot(bl)}
		}

		pk := pkeys[in.Key]

		var (
			pr    base.ProposalSignFact
			found bool
			err   error
		)

		if in.Op == "getpoint" {
			pr, found, err = pool.ProposalByPoint(pk.point, pk.proposer, pk.prev)
		} else {
			pr, found, err = pool.Proposal(pk.facts[in.Sub].Hash())
		}

		if err != nil {
			r.Fail("lookup-error", "proposal", "%s: %v", in.Op, err)
		}

		if !found {
			return c24Out{}
		}

		return c24Out{Val: identifyProposal(pr)}
	}

	for c := 0; c < nclients; c++ {
		c := c

		r.Go(fmt.Sprintf("client%d", c), func() {
			for _, p := range plan[c] {
				call := r.Seq()

				var out c24Out

				switch p.in.Op {
				case "set":
					var err error
					if mode == 0 {
						_, err = pool.SetBallot(p.a.bl)
					} else {
						_, err = pool.SetProposal(p.a.pr)
					}

					if err != nil {
						r.Fail("set-error", "set", "set: %v", err)
					}
				default:
					out = lookup(p.in)
				}

				ret := r.Seq()
				ops = append(ops, porcupine.Operation{ClientId: c, Input: p.in, Call: call, Output: out, Return: ret})
				r.Event(fmt.Sprintf("c%d %s k%d", c, p.in.Op, p.in.Key))
			}
		})
	}

	r.Sched(simkit.SchedOpts{MaxSteps: 20000, Stick: r.DrawStick()})

	if r.Unfinished() {
		r.Fail("liveness", "pool", "clients did not finish")
	}

	r.Op("mode=%d keys=%d\n%s", mode, nk, c24Describe(ops))

	// quiescent reads: stable, and the same after a restart of the pool object on the same storage
	final := make([]int, nk)
	r.Do("quiescent-reads", func() {
		for k := 0; k < nk; k++ {
			a := lookup(c24In{Op: "get", Key: k}).Val
			b := lookup(c24In{Op: "get", Key: k}).Val

			if a != b {
				r.Fail("unstable-read", "quiescent", "key %d read %d then %d at quiescence", k, a, b)
			}

			if mode == 1 {
				a1 := lookup(c24In{Op: "get", Key: k, Sub: 1}).Val
				p := lookup(c24In{Op: "getpoint", Key: k}).Val

				switch {
				case a == 0 && a1 == 0 && p != 0:
					r.Fail("point-lookup-differs", "quiescent", "key %d: nothing stored for either fact but ProposalByPoint=%d", k, p)
				case (a != 0 || a1 != 0) && p != a && p != a1:
					r.Fail("point-lookup-differs", "quiescent", "key %d: Proposal(hash) gives %d and %d for the two facts but ProposalByPoint=%d", k, a, a1, p)
				case (a != 0 || a1 != 0) && p == 0:
					r.Fail("point-lookup-differs", "quiescent", "key %d: proposals %d/%d are stored but ProposalByPoint finds nothing", k, a, a1)
				}
			}

			final[k] = a
			r.Checked()
		}

		pool2, err := isaacdatabase.NewTempPool(st, encs, enc, 0)
		if err != nil {
			panic(err)
		}

		old := pool
		pool = pool2

		for k := 0; k < nk; k++ {
			if a := lookup(c24In{Op: "get", Key: k}).Val; a != final[k] {
				r.Fail("restart-differs", "reopen", "key %d read %d before and %d after re-creating the pool on the same storage", k, final[k], a)
			}

			if mode == 1 {
				pool = old
				p0 := lookup(c24In{Op: "getpoint", Key: k}).Val
				b0 := lookup(c24In{Op: "get", Key: k, Sub: 1}).Val
				pool = pool2

				if p1, b1 := lookup(c24In{Op: "getpoint", Key: k}).Val, lookup(c24In{Op: "get", Key: k, Sub: 1}).Val; p1 != p0 || b1 != b0 {
					r.Fail("restart-differs", "reopen", "key %d: by point %d and second fact %d before, %d and %d after re-creating the pool on the same storage", k, p0, b0, p1, b1)
				}
			}
		}

		pool = old
	})

	// ---- clean-up: only entries at least `depth` below the newest height go ----
	if r.Flag("cleanup_phase") {
		c24Cleanup(r, pool, mode, marshal)
	}

	r.AfterBubble(func() {
		model := c24Model
		if mode == 1 {
			model = c24ModelP
		}

		switch porcupine.CheckOperationsTimeout(model, ops, 30*time.Second) {
		case porcupine.Ok:
			r.Probe("porcupine_ok")
		case porcupine.Unknown:
			r.Probe("porcupine_unknown")
		case porcupine.Illegal:
			r.Probe("porcupine_illegal")

			what := "ballot"
			if mode == 1 {
				what = "proposal"
			}

			r.Fail("first-writer-wins", what, "history of the %s pool is not a write-once register per key:\n%s", what, c24Describe(ops))
		}
	})
}

func c24Cleanup(r *simkit.Run, pool *isaacdatabase.TempPool, mode int, marshal func(interface{}) []byte) {
	bdepth, pdepth, _ := pool.VerifCleanDepths()
	depth := bdepth
	if mode == 1 {
		depth = pdepth
	}

	top := base.Height(100 + r.Choose(5))
	signer := common.Local(5)

	type entry struct {
		h  base.Height
		bl base.Ballot
		pr base.ProposalSignFact
	}

	var entries []entry

	n := r.Draw("cleanup_entries", 1, 8)
	hs := make([]base.Height, n)
	for i := range hs {
		hs[i] = top - base.Height(r.Choose(depth+3))
	}

	r.Do("populate", func() {
		for i := 0; i < n; i++ {
			h := hs[i]
			if i == 0 {
				h = top
			}

			point := base.RawPoint(int64(h), uint64(i))
			e := entry{h: h}

			if mode == 0 {
				fact := isaac.NewINITBallotFact(point, valuehash.RandomSHA256(), valuehash.RandomSHA256(), nil)
				sf := isaac.NewINITBallotSignFact(fact)
				_ = sf.NodeSign(signer.Privatekey(), common.NetworkID, signer.Address())
				e.bl = isaac.NewINITBallot(nil, sf, nil)

				if _, err := pool.SetBallot(e.bl); err != nil {
					panic(err)
				}
			} else {
				fs := isaac.NewProposalSignFact(isaac.NewProposalFact(point, signer.Address(), valuehash.RandomSHA256(), nil))
				_ = fs.Sign(signer.Privatekey(), common.NetworkID)
				e.pr = fs

				if _, err := pool.SetProposal(fs); err != nil {
					panic(err)
				}
			}

			entries = append(entries, e)
		}
	})

	ctx, cancel := context.WithCancel(context.Background())
	defer cancel()

	if err := pool.Start(ctx); err != nil {
		panic(err)
	}

	stopped := false
	interval := pool.VerifCleanInterval()
	until := r.Now() + interval + time.Duration(1+r.Choose(3))*time.Minute

	r.Sched(simkit.SchedOpts{MaxSteps: 50000, KeepGoing: true, MaxSim: until, Quanta: []time.Duration{time.Minute, 7 * time.Minute, 20 * time.Minute}})
	r.Go("stop-pool", func() { _ = pool.Stop(); stopped = true })
	r.Sched(simkit.SchedOpts{MaxSteps: 50000, KeepGoing: true, Until: func() bool { return stopped }, MaxSim: until + time.Hour})

	removed := 0

	r.Do("check-cleanup", func() {
		for _, e := range entries {
			var found bool

			if mode == 0 {
				_, found, _ = pool.Ballot(e.bl.Point().Point, base.StageINIT, false)
			} else {
				_, found, _ = pool.Proposal(e.pr.Fact().Hash())
			}

			if !found {
				removed++
			}

			r.Checked()

			if !found && e.h > top-base.Height(depth) {
				what := "ballot"
				if mode == 1 {
					what = "proposal"
				}

				r.Fail("cleanup-too-eager", what, "clean-up removed a %s at height %d although the newest height is %d and the configured depth is %d", what, e.h, top, depth)
			}
		}

	})

	if removed > 0 {
		r.Probe("cleanup_removed_something")
	}

	_ = marshal
}

func init() {
	simkit.Register(&simkit.Harness{
		ID:          "C24",
		Run:         c24Run,
		Real:        []string{"isaacdatabase.TempPool (SetBallot/Ballot/SetProposal/Proposal/ProposalByPoint/clean-up daemon)", "leveldbstorage.Storage + PrefixStorage", "goleveldb on memory storage", "JSON encoder (encoding/json fallback)"},
		Stub:        []string{},
		Rule:        "each run draws ballot or proposal mode, 2-4 clients x 2-6 operations over 1-3 colliding keys, every set with a unique payload (different signer); the kernel interleaves clients at every simulated lock operation inside the pool/storage (between Exists and Put); the recorded history of sets and lookups is checked by porcupine against a write-once register per key; quiescent reads must be stable, byte-identical to a submitted object, equal by hash and by point, and equal after re-creating the pool on the same storage; in half of the runs the clean-up daemon is then run on the fake clock over entries at drawn heights. distinct = event-log hash; non-trivial = non-zero choice and oracle evaluated",
		Assumptions: []string{"SetBallot/SetProposal boolean returns are not part of the oracle (the statement speaks of what is kept and returned)"},
	})
}
