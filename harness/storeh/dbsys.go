package storeh

import (
	"bytes"
	"context"
	"fmt"
	"strings"

	"github.com/spikeekips/mitum/base"
	"github.com/spikeekips/mitum/isaac"
	isaacblock "github.com/spikeekips/mitum/isaac/block"
	isaacdatabase "github.com/spikeekips/mitum/isaac/database"
	"github.com/spikeekips/mitum/simkit"
	leveldbstorage "github.com/spikeekips/mitum/storage/leveldb"
	"github.com/spikeekips/mitum/util"
	"github.com/spikeekips/mitum/util/fixedtree"
	"github.com/spikeekips/mitum/util/valuehash"
	"github.com/spikeekips/mitum/vh/common"
	"github.com/spikeekips/mitum/vh/simdisk"
)

// ---- generated chain ----

type dbBlock struct {
	h        base.Height
	bm       base.BlockMap
	states   []base.State
	knownOps []util.Hash
	sufst    base.State
	sufH     base.Height
	proof    base.SuffrageProof
	policy   base.NetworkPolicy
}

type dbGen struct {
	r        *simkit.Run
	nkeys    int
	sufH     base.Height
	lastSuf  base.State
	manyKeys int // when > 0, some blocks carry this many states (to cross batch limits)
	valn     int

	alignRecords int // when > 0, the block is padded to a multiple of this many records (or one off it)
}

func newDBGen(r *simkit.Run, nkeys int) *dbGen {
	return &dbGen{r: r, nkeys: nkeys, sufH: base.NilHeight}
}

func (g *dbGen) block(h base.Height) *dbBlock {
	n := 0
	if g.manyKeys > 0 && g.r.Chance(1, 3) {
		n = g.manyKeys
	}

	return g.blockN(h, n)
}

// blockN generates a block with about n generic states (n == 0: a small block).
func (g *dbGen) blockN(h base.Height, n int) *dbBlock {
	r := g.r
	b := &dbBlock{h: h, sufH: base.NilHeight}

	nstates := 1 + r.Choose(4)
	if n > 0 {
		nstates = n + r.Choose(40)
		r.Probe("block_with_many_states")
	}

	used := map[string]bool{}

	for i := 0; i < nstates; i++ {
		var key string
		if i < 6 {
			key = fmt.Sprintf("key%02d", r.Choose(g.nkeys))
		} else {
			key = fmt.Sprintf("bulk%04d", i)
		}

		if used[key] {
			continue
		}

		used[key] = true
		g.valn++

		var ops []util.Hash
		for j := r.Choose(3); j > 0; j-- {
			ops = append(ops, valuehash.RandomSHA256())
		}

		b.states = append(b.states, base.NewBaseState(h, key, base.NewDummyStateValue(fmt.Sprintf("v%d@%d", g.valn, h)), valuehash.RandomSHA256(), ops))
	}

	// suffrage change in the genesis block and then sometimes
	if h == base.GenesisHeight || r.Chance(1, 3) {
		g.sufH++

		n := 1 + r.Choose(3)
		sufnodes := make([]base.SuffrageNodeStateValue, n)

		for i := range sufnodes {
			sufnodes[i] = isaac.NewSuffrageNodeStateValue(common.Local(i), h)
		}

		var prev util.Hash
		if g.lastSuf != nil {
			prev = g.lastSuf.Hash()
		}

		b.sufst = base.NewBaseState(h, isaac.SuffrageStateKey, isaac.NewSuffrageNodesStateValue(g.sufH, sufnodes), prev, []util.Hash{valuehash.RandomSHA256()})
		b.sufH = g.sufH
		g.lastSuf = b.sufst
		b.states = append(b.states, b.sufst)
	}

	if h == base.GenesisHeight || r.Chance(1, 4) {
		p := isaac.DefaultNetworkPolicy()
		p.SetMaxOperationsInProposal(uint64(10 + g.valn))
		b.policy = p
		b.states = append(b.states, base.NewBaseState(h, isaac.NetworkPolicyStateKey, isaac.NewNetworkPolicyStateValue(p), valuehash.RandomSHA256(), []util.Hash{valuehash.RandomSHA256()}))
	}

	for j := r.Choose(4); j > 0; j-- {
		b.knownOps = append(b.knownOps, valuehash.RandomSHA256())
	}

	// a block whose number of records (states + their operations + known operations) lands on or next to a multiple
	// of the block-write batch size (128)
	if g.alignRecords > 0 {
		count := len(b.states) + len(b.knownOps)
		for _, st := range b.states {
			count += len(st.Operations())
		}

		target := (count+g.alignRecords-1)/g.alignRecords*g.alignRecords + []int{0, 0, 0, 1, -1}[r.Choose(5)]
		if r.Chance(1, 3) {
			target += g.alignRecords
		}

		for i := 0; count < target; i++ {
			g.valn++
			b.states = append(b.states, base.NewBaseState(h, fmt.Sprintf("pad%04d", i), base.NewDummyStateValue(fmt.Sprintf("v%d@%d", g.valn, h)), valuehash.RandomSHA256(), nil))
			count++
		}

		r.Probe("block_aligned_to_write_batch")
	}

	manifest := base.NewDummyManifest(h, valuehash.RandomSHA256())
	if b.sufst != nil {
		manifest.SetSuffrage(b.sufst.Hash())
	} else {
		manifest.SetSuffrage(nil)
	}

	b.bm = base.NewDummyBlockMap(manifest)

	if b.sufst != nil {
		w, err := fixedtree.NewWriter(base.StateFixedtreeHint, uint64(len(b.states)))
		if err != nil {
			panic(err)
		}

		for i := range b.states {
			if err := w.Add(uint64(i), fixedtree.NewBaseNode(b.states[i].Hash().String())); err != nil {
				panic(err)
			}
		}

		if err := w.Write(func(uint64, fixedtree.Node) error { return nil }); err != nil {
			panic(err)
		}

		tr, err := w.Tree()
		if err != nil {
			panic(err)
		}

		proof, err := tr.Proof(b.sufst.Hash().String())
		if err != nil {
			panic(err)
		}

		b.proof = isaacblock.NewSuffrageProof(b.bm, b.sufst, proof)
	}

	return b
}

// ---- the system, wired as launch.LoadDatabase wires it ----

type dbSys struct {
	disk   *simdisk.Disk
	st     *leveldbstorage.Storage
	perm   *isaacdatabase.LeveldbPermanent
	center *isaacdatabase.Center
	pool   *isaacdatabase.TempPool
	// bwCache > 0: every block-write database gets a bounded state cache, as launch.NewBlockWriterFunc gives it
	bwCache int
}

func openDBSys(disk *simdisk.Disk, stcache int) (*dbSys, error) {
	encs, enc := common.Encs()

	st, err := leveldbstorage.NewStorage(disk, nil)
	if err != nil {
		return nil, err
	}

	s := &dbSys{disk: disk, st: st}

	if s.perm, err = isaacdatabase.NewLeveldbPermanent(st, encs, enc, stcache); err != nil {
		_ = st.Close()

		return nil, err
	}

	if s.center, err = isaacdatabase.NewCenter(st, encs, enc, s.perm, func(h base.Height) (isaac.BlockWriteDatabase, error) {
		return isaacdatabase.NewLeveldbBlockWrite(h, st, encs, enc), nil
	}); err != nil {
		_ = st.Close()

		return nil, err
	}

	if err = s.center.MergeAllPermanent(); err != nil {
		_ = st.Close()

		return nil, err
	}

	if err = isaacdatabase.CleanSyncPool(st); err != nil {
		_ = st.Close()

		return nil, err
	}

	if s.pool, err = isaacdatabase.NewTempPool(st, encs, enc, 0); err != nil {
		_ = st.Close()

		return nil, err
	}

	return s, nil
}

func (s *dbSys) close() { _ = s.st.Close() }

// writeBlock follows isaacblock.Writer: states and operations, Write, block map, suffrage proof, merge.
func (s *dbSys) writeBlock(b *dbBlock) error {
	bw, err := s.center.NewBlockWriteDatabase(b.h)
	if err != nil {
		return err
	}

	if s.bwCache > 0 {
		if i, ok := bw.(isaac.StateCacheSetter); ok {
			i.SetStateCache(util.NewLFUGCache[string, [2]interface{}](s.bwCache))
		}
	}

	if err := bw.SetStates(b.states); err != nil {
		return err
	}

	if err := bw.SetOperations(b.knownOps); err != nil {
		return err
	}

	if err := bw.Write(); err != nil {
		return err
	}

	if err := bw.SetBlockMap(b.bm); err != nil {
		return err
	}

	if b.proof != nil {
		if err := bw.SetSuffrageProof(b.proof); err != nil {
			return err
		}
	}

	return s.center.MergeBlockWriteDatabase(bw)
}

// ---- the model: the slice of committed blocks ----

type dbModel struct{ blocks []*dbBlock }

func (m *dbModel) top() base.Height {
	if len(m.blocks) == 0 {
		return base.NilHeight
	}

	return m.blocks[len(m.blocks)-1].h
}

func (m *dbModel) state(key string) base.State {
	for i := len(m.blocks) - 1; i >= 0; i-- {
		for _, st := range m.blocks[i].states {
			if st.Key() == key {
				return st
			}
		}
	}

	return nil
}

func (m *dbModel) keys() []string {
	seen := map[string]bool{}

	var keys []string

	for _, b := range m.blocks {
		for _, st := range b.states {
			if !seen[st.Key()] {
				seen[st.Key()] = true
				keys = append(keys, st.Key())
			}
		}
	}

	return keys
}

func (m *dbModel) block(h base.Height) *dbBlock {
	for _, b := range m.blocks {
		if b.h == h {
			return b
		}
	}

	return nil
}

func (m *dbModel) proofBySufHeight(sh base.Height) *dbBlock {
	for _, b := range m.blocks {
		if b.proof != nil && b.sufH == sh {
			return b
		}
	}

	return nil
}

func (m *dbModel) proofByBlockHeight(h base.Height) *dbBlock {
	if h > m.top() {
		return nil
	}

	for i := len(m.blocks) - 1; i >= 0; i-- {
		if m.blocks[i].h <= h && m.blocks[i].proof != nil {
			return m.blocks[i]
		}
	}

	return nil
}

func (m *dbModel) lastPolicy() base.NetworkPolicy {
	for i := len(m.blocks) - 1; i >= 0; i-- {
		if m.blocks[i].policy != nil {
			return m.blocks[i].policy
		}
	}

	return nil
}

func mustMarshal(v interface{}) []byte {
	_, enc := common.Encs()

	b, err := enc.Marshal(v)
	if err != nil {
		panic(err)
	}

	return b
}

// readSet is every read of the statement, taken at one moment, in comparable form.
type readSet struct {
	items map[string]string
}

func (a readSet) diff(b readSet) string {
	var sb strings.Builder

	for k, v := range b.items {
		if g, ok := a.items[k]; !ok {
			fmt.Fprintf(&sb, "%s: missing (want %.60s); ", k, v)
		} else if g != v {
			fmt.Fprintf(&sb, "%s: got %.80s want %.80s; ", k, g, v)
		}
	}

	for k, v := range a.items {
		if _, ok := b.items[k]; !ok {
			fmt.Fprintf(&sb, "%s: unexpected %.60s; ", k, v)
		}
	}

	return sb.String()
}

func proofID(p base.SuffrageProof) string {
	if p == nil {
		return "none"
	}

	return fmt.Sprintf("proof(block %d, suffrage %d, state %s)", p.Map().Manifest().Height(), p.SuffrageHeight(), p.State().Hash())
}

// expectedReads computes the read set from the model. universe lists what to probe (so that absent things are probed too).
type dbUniverse struct {
	keys      []string
	maxHeight base.Height
	maxSufH   base.Height
	inState   []util.Hash
	known     []util.Hash
}

func universeOf(chain []*dbBlock) dbUniverse {
	u := dbUniverse{maxHeight: base.NilHeight, maxSufH: base.NilHeight}
	seen := map[string]bool{}

	for _, b := range chain {
		if b.h > u.maxHeight {
			u.maxHeight = b.h
		}

		if b.sufH > u.maxSufH {
			u.maxSufH = b.sufH
		}

		for _, st := range b.states {
			if !seen[st.Key()] && !strings.HasPrefix(st.Key(), "bulk0") {
				seen[st.Key()] = true
				u.keys = append(u.keys, st.Key())
			}

			if len(u.inState) < 60 {
				u.inState = append(u.inState, st.Operations()...)
			}
		}
		// a few bulk keys
		for _, st := range b.states {
			if strings.HasPrefix(st.Key(), "bulk0") && !seen[st.Key()] && (strings.HasSuffix(st.Key(), "7") || len(u.keys) < 12) {
				seen[st.Key()] = true
				u.keys = append(u.keys, st.Key())
			}
		}

		u.known = append(u.known, b.knownOps...)
	}

	return u
}

// fullUniverseOf: every state key, in-state operation and known operation of the chain
func fullUniverseOf(chain []*dbBlock) dbUniverse {
	u := universeOf(chain)
	seen := map[string]bool{}

	for _, k := range u.keys {
		seen[k] = true
	}

	u.inState = nil

	for _, b := range chain {
		for _, st := range b.states {
			if !seen[st.Key()] {
				seen[st.Key()] = true
				u.keys = append(u.keys, st.Key())
			}

			u.inState = append(u.inState, st.Operations()...)
		}
	}

	return u
}

func (m *dbModel) expected(u dbUniverse) readSet {
	rs := readSet{items: map[string]string{}}
	top := m.top()

	rs.items["last-blockmap"] = "none"
	if top > base.NilHeight {
		rs.items["last-blockmap"] = m.block(top).bm.Manifest().Hash().String()
	}

	for h := base.GenesisHeight; h <= u.maxHeight+1; h++ {
		v := "none"
		if b := m.block(h); b != nil {
			v = b.bm.Manifest().Hash().String()
		}

		rs.items[fmt.Sprintf("blockmap/%d", h)] = v

		pv := "none"
		if b := m.proofByBlockHeight(h); b != nil {
			pv = proofID(b.proof)
		}

		rs.items[fmt.Sprintf("proof-by-block/%d", h)] = pv
	}

	for sh := base.GenesisHeight; sh <= u.maxSufH+1; sh++ {
		v := "none"
		if b := m.proofBySufHeight(sh); b != nil {
			v = proofID(b.proof)
		}

		rs.items[fmt.Sprintf("proof-by-suffrage/%d", sh)] = v
	}

	lastproof := "none"
	for i := len(m.blocks) - 1; i >= 0; i-- {
		if m.blocks[i].proof != nil {
			lastproof = proofID(m.blocks[i].proof)

			break
		}
	}

	rs.items["last-proof"] = lastproof

	for _, k := range u.keys {
		v := "none"
		if st := m.state(k); st != nil {
			v = fmt.Sprintf("%s@%d", st.Hash(), st.Height())
		}

		rs.items["state/"+k] = v
	}

	in := map[string]bool{}
	kn := map[string]bool{}

	for _, b := range m.blocks {
		for _, st := range b.states {
			for _, op := range st.Operations() {
				in[op.String()] = true
			}
		}

		for _, op := range b.knownOps {
			kn[op.String()] = true
		}
	}

	for _, op := range u.inState {
		rs.items["instate-op/"+op.String()[:12]] = fmt.Sprint(in[op.String()])
	}

	for _, op := range u.known {
		rs.items["known-op/"+op.String()[:12]] = fmt.Sprint(kn[op.String()])
	}

	rs.items["policy"] = "none"
	if p := m.lastPolicy(); p != nil {
		rs.items["policy"] = string(mustMarshal(p))
	}

	return rs
}

// actualReads performs every read against the real database.
func actualReads(db isaac.Database, u dbUniverse) (readSet, error) {
	rs := readSet{items: map[string]string{}}

	switch m, found, err := db.LastBlockMap(); {
	case err != nil:
		return rs, fmt.Errorf("LastBlockMap: %w", err)
	case !found:
		rs.items["last-blockmap"] = "none"
	default:
		rs.items["last-blockmap"] = m.Manifest().Hash().String()
	}

	for h := base.GenesisHeight; h <= u.maxHeight+1; h++ {
		switch m, found, err := db.BlockMap(h); {
		case err != nil:
			return rs, fmt.Errorf("BlockMap(%d): %w", h, err)
		case !found:
			rs.items[fmt.Sprintf("blockmap/%d", h)] = "none"
		default:
			rs.items[fmt.Sprintf("blockmap/%d", h)] = m.Manifest().Hash().String()
		}

		switch p, found, err := db.SuffrageProofByBlockHeight(h); {
		case err != nil:
			return rs, fmt.Errorf("SuffrageProofByBlockHeight(%d): %w", h, err)
		case !found:
			rs.items[fmt.Sprintf("proof-by-block/%d", h)] = "none"
		default:
			rs.items[fmt.Sprintf("proof-by-block/%d", h)] = proofID(p)
		}
	}

	for sh := base.GenesisHeight; sh <= u.maxSufH+1; sh++ {
		switch p, found, err := db.SuffrageProof(sh); {
		case err != nil:
			return rs, fmt.Errorf("SuffrageProof(%d): %w", sh, err)
		case !found:
			rs.items[fmt.Sprintf("proof-by-suffrage/%d", sh)] = "none"
		default:
			rs.items[fmt.Sprintf("proof-by-suffrage/%d", sh)] = proofID(p)
		}
	}

	switch p, found, err := db.LastSuffrageProof(); {
	case err != nil:
		return rs, fmt.Errorf("LastSuffrageProof: %w", err)
	case !found:
		rs.items["last-proof"] = "none"
	default:
		rs.items["last-proof"] = proofID(p)
	}

	for _, k := range u.keys {
		switch st, found, err := db.State(k); {
		case err != nil:
			return rs, fmt.Errorf("State(%s): %w", k, err)
		case !found:
			rs.items["state/"+k] = "none"
		default:
			rs.items["state/"+k] = fmt.Sprintf("%s@%d", st.Hash(), st.Height())
		}
	}

	for _, op := range u.inState {
		found, err := db.ExistsInStateOperation(op)
		if err != nil {
			return rs, fmt.Errorf("ExistsInStateOperation: %w", err)
		}

		rs.items["instate-op/"+op.String()[:12]] = fmt.Sprint(found)
	}

	for _, op := range u.known {
		found, err := db.ExistsKnownOperation(op)
		if err != nil {
			return rs, fmt.Errorf("ExistsKnownOperation: %w", err)
		}

		rs.items["known-op/"+op.String()[:12]] = fmt.Sprint(found)
	}

	rs.items["policy"] = "none"
	if p := db.LastNetworkPolicy(); p != nil {
		rs.items["policy"] = string(mustMarshal(p))
	}

	return rs, nil
}

// bytesReads collects the raw-bytes reads (served to peers) for C20.
func bytesReads(c *isaacdatabase.Center, u dbUniverse) (map[string]string, error) {
	out := map[string]string{}

	put := func(name, enchint string, meta, body []byte, found bool) {
		if !found {
			out[name] = "none"

			return
		}

		out[name] = fmt.Sprintf("%s|%x|%s", enchint, meta, body)
	}

	enchint, meta, body, found, err := c.LastBlockMapBytes()
	if err != nil {
		return nil, fmt.Errorf("LastBlockMapBytes: %w", err)
	}

	put("last-blockmap-bytes", enchint, meta, body, found)

	for h := base.GenesisHeight; h <= u.maxHeight+1; h++ {
		enchint, meta, body, found, err := c.BlockMapBytes(h)
		if err != nil {
			return nil, fmt.Errorf("BlockMapBytes(%d): %w", h, err)
		}

		put(fmt.Sprintf("blockmap-bytes/%d", h), enchint, meta, body, found)
	}

	{
		enchint, meta, body, found, _, err := c.LastSuffrageProofBytes()
		if err != nil {
			return nil, fmt.Errorf("LastSuffrageProofBytes: %w", err)
		}

		put("last-proof-bytes", enchint, meta, body, found)
	}

	for sh := base.GenesisHeight; sh <= u.maxSufH+1; sh++ {
		enchint, meta, body, found, err := c.SuffrageProofBytes(sh)
		if err != nil {
			return nil, fmt.Errorf("SuffrageProofBytes(%d): %w", sh, err)
		}

		put(fmt.Sprintf("proof-bytes/%d", sh), enchint, meta, body, found)
	}

	for _, k := range u.keys {
		enchint, meta, body, found, err := c.StateBytes(k)
		if err != nil {
			return nil, fmt.Errorf("StateBytes(%s): %w", k, err)
		}

		put("state-bytes/"+k, enchint, meta, body, found)
	}

	return out, nil
}

func diffMaps(got, want map[string]string) string {
	var sb strings.Builder

	for k, v := range want {
		if g, ok := got[k]; !ok {
			fmt.Fprintf(&sb, "%s: missing; ", k)
		} else if g != v {
			fmt.Fprintf(&sb, "%s: got %.100s want %.100s; ", k, g, v)
		}
	}

	for k := range got {
		if _, ok := want[k]; !ok {
			fmt.Fprintf(&sb, "%s: unexpected; ", k)
		}
	}

	return sb.String()
}

var (
	_ = bytes.Equal
	_ = context.Background
)
