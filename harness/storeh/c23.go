package storeh

import (
	"context"
	"fmt"
	"sort"
	"strings"

	"github.com/spikeekips/mitum/base"
	"github.com/spikeekips/mitum/isaac"
	isaacdatabase "github.com/spikeekips/mitum/isaac/database"
	"github.com/spikeekips/mitum/simkit"
	leveldbstorage "github.com/spikeekips/mitum/storage/leveldb"
	"github.com/spikeekips/mitum/vh/common"
)

type c23Op struct {
	n          int
	node       int
	start, end base.Height
	op         isaac.SuffrageExpelOperation
	present    bool
}

func (o *c23Op) covers(h base.Height) bool { return o.start <= h && h <= o.end }

func c23Run(r *simkit.Run) {
	encs, enc := common.Encs()
	st := leveldbstorage.NewMemStorage()

	r.OnEnd(func() { _ = st.Close() })

	pool, err := isaacdatabase.NewTempPool(st, encs, enc, 0)
	if err != nil {
		panic(err)
	}

	nnodes := r.Draw("nodes", 1, 4)
	nops := r.Draw("operations", 1, 8)
	lo := base.Height(33)

	ops := make([]*c23Op, nops)
	byFact := map[string]*c23Op{}

	for i := range ops {
		o := &c23Op{n: i, node: r.Choose(nnodes)}
		o.start = lo + base.Height(r.Choose(8))
		o.end = o.start + base.Height(1+r.Choose(6))

		// the fact hash covers (node, start, end) only: keep the triples distinct
		fact := isaac.NewSuffrageExpelFact(common.Local(o.node).Address(), o.start, o.end, "verif")
		for {
			if _, dup := byFact[fact.Hash().String()]; !dup {
				break
			}

			o.end++
			fact = isaac.NewSuffrageExpelFact(common.Local(o.node).Address(), o.start, o.end, "verif")
		}

		op := isaac.NewSuffrageExpelOperation(fact)
		signer := common.Local(40 + r.Choose(3))

		if err := op.NodeSign(signer.Privatekey(), common.NetworkID, signer.Address()); err != nil {
			panic(err)
		}

		o.op = op
		ops[i] = o
		byFact[fact.Hash().String()] = o
	}

	show := func() string {
		var sb strings.Builder
		for _, o := range ops {
			if o.present {
				fmt.Fprintf(&sb, "op%d(node%d,[%d,%d]) ", o.n, o.node, o.start, o.end)
			}
		}

		return sb.String()
	}

	names := func(l []*c23Op) string {
		sort.Slice(l, func(i, j int) bool { return l[i].n < l[j].n })

		var s []string
		for _, o := range l {
			s = append(s, fmt.Sprintf("op%d", o.n))
		}

		return "[" + strings.Join(s, " ") + "]"
	}

	type step struct {
		kind   int // 0 set, 1 traverse, 2 lookup, 3 remove by height, 4 remove by fact, 5 restart, 6 sweep all heights
		op     *c23Op
		height base.Height
		node   int
		facts  []*c23Op
	}

	nsteps := r.Draw("steps", 2, 16)
	steps := make([]step, nsteps)

	for i := range steps {
		s := step{kind: []int{0, 0, 0, 1, 1, 2, 2, 3, 4, 5, 6}[r.Choose(11)]}
		s.height = lo - 1 + base.Height(r.Choose(18))
		s.node = r.Choose(nnodes)
		s.op = ops[r.Choose(nops)]

		if s.kind == 4 {
			for _, o := range ops {
				if r.Chance(1, 3) {
					s.facts = append(s.facts, o)
				}
			}
		}

		steps[i] = s
	}

	checkTraverse := func(h base.Height) {
		var got, want []*c23Op

		err := pool.TraverseSuffrageExpelOperations(context.Background(), h, func(op base.SuffrageExpelOperation) (bool, error) {
			o, ok := byFact[op.ExpelFact().Hash().String()]
			if !ok {
				r.Fail("traverse-unknown", "unknown", "traverse at %d visited an operation that was never stored", h)
			}

			got = append(got, o)

			return true, nil
		})
		if err != nil {
			r.Fail("traverse-error", "error", "traverse at %d: %v", h, err)
		}

		for _, o := range ops {
			if o.present && o.covers(h) {
				want = append(want, o)
			}
		}

		r.Checked()

		if names(got) != names(want) {
			sig := "missed"

			for _, g := range got {
				if !g.present || !g.covers(h) {
					sig = "visited-not-covering"
				}
			}

			// what distinguishes the failing case: is there a stored range lying entirely above the height?
			above := false
			for _, o := range ops {
				if o.present && o.start > h {
					above = true
				}
			}

			if sig == "missed" && above {
				sig = "missed-with-range-starting-above-height"
			}

			r.Fail("traverse-set", sig, "traverse at height %d visited %s, expected exactly %s; stored: %s", h, names(got), names(want), show())
		}
	}

	checkLookup := func(h base.Height, node int) {
		op, found, err := pool.SuffrageExpelOperation(h, common.Local(node).Address())
		if err != nil {
			r.Fail("lookup-error", "error", "lookup(%d,node%d): %v", h, node, err)
		}

		var want []*c23Op
		for _, o := range ops {
			if o.present && o.node == node && o.covers(h) {
				want = append(want, o)
			}
		}

		r.Checked()

		switch {
		case found && len(want) == 0:
			r.Fail("lookup", "found-without-covering-operation", "lookup(height %d,node%d) found an operation but none covers; stored: %s", h, node, show())
		case !found && len(want) > 0:
			others := 0
			for _, o := range ops {
				if o.present && o.node == node && !o.covers(h) {
					others++
				}
			}

			sig := "not-found"
			if others > 0 {
				sig = "not-found-when-node-has-another-non-covering-operation"
			}

			r.Fail("lookup", sig, "lookup(height %d,node%d) found nothing although %s cover it; stored: %s", h, node, names(want), show())
		case found:
			o := byFact[op.ExpelFact().Hash().String()]
			if o == nil || !o.present || o.node != node || !o.covers(h) {
				r.Fail("lookup", "wrong-operation", "lookup(height %d,node%d) returned an operation that does not cover it", h, node)
			}
		}
	}

	r.Go("client", func() {
		for _, s := range steps {
			switch s.kind {
			case 0:
				if err := pool.SetSuffrageExpelOperation(s.op.op); err != nil {
					r.Fail("set-error", "error", "set: %v", err)
				}

				s.op.present = true
				r.Op("set op%d node%d [%d,%d]", s.op.n, s.op.node, s.op.start, s.op.end)
			case 1:
				r.Op("traverse %d", s.height)
				checkTraverse(s.height)
			case 2:
				r.Op("lookup %d node%d", s.height, s.node)
				checkLookup(s.height, s.node)
			case 3:
				r.Op("remove by height %d", s.height)

				if err := pool.RemoveSuffrageExpelOperationsByHeight(s.height); err != nil {
					r.Fail("remove-error", "error", "remove by height: %v", err)
				}

				for _, o := range ops {
					if o.end <= s.height {
						o.present = false
					}
				}

				checkAll(r, lo, checkTraverse)
			case 4:
				facts := make([]base.SuffrageExpelFact, len(s.facts))
				for i, o := range s.facts {
					facts[i] = o.op.ExpelFact()
					o.present = false
				}

				r.Op("remove by fact %s", names(s.facts))

				if err := pool.RemoveSuffrageExpelOperationsByFact(facts); err != nil {
					r.Fail("remove-error", "error", "remove by fact: %v", err)
				}

				checkAll(r, lo, checkTraverse)
			case 5:
				np, err := isaacdatabase.NewTempPool(st, encs, enc, 0)
				if err != nil {
					panic(err)
				}

				pool = np
				r.Fault("pool_restart")
				r.Op("restart")
			case 6:
				r.Op("sweep")
				checkAll(r, lo, checkTraverse)

				for n := 0; n < nnodes; n++ {
					for h := lo - 1; h < lo+18; h++ {
						checkLookup(h, n)
					}
				}
			}
		}
	})

	r.Sched(simkit.SchedOpts{MaxSteps: 400000})

	if r.Unfinished() {
		r.Fail("liveness", "pool", "client did not finish")
	}
}

func checkAll(r *simkit.Run, lo base.Height, f func(base.Height)) {
	for h := lo - 1; h < lo+18; h++ {
		f(h)
	}
}

func init() {
	simkit.Register(&simkit.Harness{
		ID:          "C23",
		Run:         c23Run,
		Real:        []string{"isaacdatabase.TempPool expel-operation methods", "isaac.SuffrageExpelOperation", "leveldbstorage", "goleveldb on memory storage"},
		Stub:        []string{},
		Rule:        "each run draws 1-4 nodes, 1-8 expel operations with random [start,end] ranges (including ranges lying entirely above the queried height and several ranges per node), and 2-16 steps of set / traverse / lookup / remove-by-height / remove-by-fact / pool restart / full sweep over every height and node; after every step the result is compared for exact set equality with an interval model. distinct = event-log hash; non-trivial = non-zero choice and oracle evaluated",
		Assumptions: []string{"sequential client: this property quantifies over inputs and histories, the kernel contributes the fake clock, restart and deterministic replay"},
	})
}
