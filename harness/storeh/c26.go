package storeh

import (
	"context"
	"fmt"
	"io"
	"net"
	"os"
	"runtime"
	"sort"
	"strings"
	"sync"
	"time"

	"github.com/alicebob/miniredis/v2"
	"github.com/redis/go-redis/v9"
	"github.com/spikeekips/mitum/base"
	"github.com/spikeekips/mitum/isaac"
	isaacdatabase "github.com/spikeekips/mitum/isaac/database"
	"github.com/spikeekips/mitum/simkit"
	leveldbstorage "github.com/spikeekips/mitum/storage/leveldb"
	redisstorage "github.com/spikeekips/mitum/storage/redis"
	"github.com/spikeekips/mitum/util"
	"github.com/spikeekips/mitum/vh/common"
)

// C26: the Redis-backed permanent database answers every read as the
// leveldb-backed one does, including after reopening.
//
// Redis is miniredis served in-process. The server lives outside the
// simulation (it wants a TCP listener, which carries no traffic, and its
// internals must not be shared between a synctest bubble and the outside):
// a dispatcher goroutine started once per worker hands out one end of a
// net.Pipe per client connection and lets miniredis serve the other end. For
// the simulation a Redis command is therefore an I/O that completes without
// simulated time passing; the server is sequential per connection, so the
// exchange is a pure function of the bytes sent.

var (
	c26Once     sync.Once
	c26MR       *miniredis.Miniredis
	c26DialReq  chan struct{}
	c26DialResp chan net.Conn
)

func c26Setup() {
	c26Once.Do(func() {
		c26MR = miniredis.NewMiniRedis()
		if err := c26MR.Start(); err != nil {
			panic(err)
		}

		c26DialReq = make(chan struct{})
		c26DialResp = make(chan net.Conn)

		go func() {
			for range c26DialReq {
				a, b := net.Pipe()
				c26MR.Server().ServeConn(b)
				c26DialResp <- a
			}
		}()
	})
}

// faulty connection: fails (both directions) after a number of written bytes
type c26Conn struct {
	net.Conn
	left **int // bytes until the connection breaks; nil or <0: never
	hard *bool // the break lasts (see Write)
	r    *simkit.Run
}

var errC26Reset = io.EOF // what go-redis treats as a broken connection worth a retry

// deadlines are computed from the simulated clock and mean nothing to a pipe that lives on the real one
func (c *c26Conn) SetDeadline(time.Time) error      { return nil }
func (c *c26Conn) SetReadDeadline(time.Time) error  { return nil }
func (c *c26Conn) SetWriteDeadline(time.Time) error { return nil }

var c26Debug = os.Getenv("VERIF_C26DEBUG") != ""

func (c *c26Conn) Read(b []byte) (int, error) {
	n, err := c.Conn.Read(b)

	if c26Debug {
		c.r.Event(fmt.Sprintf("conn %p read %d err=%v %q", c.Conn, n, err, b[:min(n, 40)]))
	}

	return n, err
}

func (c *c26Conn) Write(b []byte) (int, error) {
	if c26Debug {
		left := -99
		if l := *c.left; l != nil {
			left = *l
		}

		c.r.Event(fmt.Sprintf("conn %p write %d left=%d %q", c.Conn, len(b), left, b[:min(len(b), 4000)]))
	}

	// -2: the server stays unreachable (every connection breaks at once) until the harness lifts the fault: the
	// client's retries are used up and the merge fails in the middle
	if left := *c.left; left != nil && *left == -2 {
		_ = c.Conn.Close()

		return 0, errC26Reset
	}

	if left := *c.left; left != nil && *left >= 0 {
		if *left < len(b) {
			n := *left
			*left = -1

			if c.hard != nil && *c.hard {
				*left = -2
			}

			c.r.Fault("redis_connection_reset")

			if n > 0 {
				_, _ = c.Conn.Write(b[:n])
			}

			_ = c.Conn.Close()

			return n, errC26Reset
		}

		*left -= len(b)
	}

	return c.Conn.Write(b)
}

func permReads(db isaac.PermanentDatabase, u dbUniverse) (map[string]string, error) {
	out := map[string]string{}

	put := func(name, enchint string, meta, body []byte, found bool) {
		if !found {
			out[name] = "none"

			return
		}

		out[name] = fmt.Sprintf("%s|%x|%s", enchint, meta, body)
	}

	switch m, found, err := db.LastBlockMap(); {
	case err != nil:
		return nil, fmt.Errorf("LastBlockMap: %w", err)
	case !found:
		out["last-blockmap"] = "none"
	default:
		out["last-blockmap"] = m.Manifest().Hash().String()
	}

	{
		enchint, meta, body, found, err := db.LastBlockMapBytes()
		if err != nil {
			return nil, fmt.Errorf("LastBlockMapBytes: %w", err)
		}

		put("last-blockmap-bytes", enchint, meta, body, found)
	}

	for h := base.GenesisHeight; h <= u.maxHeight+1; h++ {
		switch m, found, err := db.BlockMap(h); {
		case err != nil:
			return nil, fmt.Errorf("BlockMap(%d): %w", h, err)
		case !found:
			out[fmt.Sprintf("blockmap/%d", h)] = "none"
		default:
			out[fmt.Sprintf("blockmap/%d", h)] = m.Manifest().Hash().String()
		}

		enchint, meta, body, found, err := db.BlockMapBytes(h)
		if err != nil {
			return nil, fmt.Errorf("BlockMapBytes(%d): %w", h, err)
		}

		put(fmt.Sprintf("blockmap-bytes/%d", h), enchint, meta, body, found)

		switch p, found, err := db.SuffrageProofByBlockHeight(h); {
		case err != nil:
			return nil, fmt.Errorf("SuffrageProofByBlockHeight(%d): %w", h, err)
		case !found:
			out[fmt.Sprintf("proof-by-block/%d", h)] = "none"
		default:
			out[fmt.Sprintf("proof-by-block/%d", h)] = proofID(p)
		}
	}

	for sh := base.GenesisHeight; sh <= u.maxSufH+1; sh++ {
		switch p, found, err := db.SuffrageProof(sh); {
		case err != nil:
			return nil, fmt.Errorf("SuffrageProof(%d): %w", sh, err)
		case !found:
			out[fmt.Sprintf("proof-by-suffrage/%d", sh)] = "none"
		default:
			out[fmt.Sprintf("proof-by-suffrage/%d", sh)] = proofID(p)
		}

		enchint, meta, body, found, err := db.SuffrageProofBytes(sh)
		if err != nil {
			return nil, fmt.Errorf("SuffrageProofBytes(%d): %w", sh, err)
		}

		put(fmt.Sprintf("proof-bytes/%d", sh), enchint, meta, body, found)
	}

	switch p, found, err := db.LastSuffrageProof(); {
	case err != nil:
		return nil, fmt.Errorf("LastSuffrageProof: %w", err)
	case !found:
		out["last-proof"] = "none"
	default:
		out["last-proof"] = proofID(p)
	}

	{
		enchint, meta, body, found, err := db.LastSuffrageProofBytes()
		if err != nil {
			return nil, fmt.Errorf("LastSuffrageProofBytes: %w", err)
		}

		put("last-proof-bytes", enchint, meta, body, found)
	}

	for _, k := range u.keys {
		switch st, found, err := db.State(k); {
		case err != nil:
			return nil, fmt.Errorf("State(%s): %w", k, err)
		case !found:
			out["state/"+k] = "none"
		default:
			out["state/"+k] = fmt.Sprintf("%s@%d", st.Hash(), st.Height())
		}

		enchint, meta, body, found, err := db.StateBytes(k)
		if err != nil {
			return nil, fmt.Errorf("StateBytes(%s): %w", k, err)
		}

		put("state-bytes/"+k, enchint, meta, body, found)
	}

	for _, op := range u.inState {
		found, err := db.ExistsInStateOperation(op)
		if err != nil {
			return nil, fmt.Errorf("ExistsInStateOperation: %w", err)
		}

		out["instate-op/"+op.String()[:12]] = fmt.Sprint(found)
	}

	for _, op := range u.known {
		found, err := db.ExistsKnownOperation(op)
		if err != nil {
			return nil, fmt.Errorf("ExistsKnownOperation: %w", err)
		}

		out["known-op/"+op.String()[:12]] = fmt.Sprint(found)
	}

	out["policy"] = "none"
	if p := db.LastNetworkPolicy(); p != nil {
		out["policy"] = string(mustMarshal(p))
	}

	return out, nil
}

// readKind: "blockmap/3" -> "blockmap"
func readKind(k string) string {
	if i := strings.Index(k, "/"); i >= 0 {
		return k[:i]
	}

	return k
}

func c26Run(r *simkit.Run) {
	// go-redis keeps stopped timers in a package-level sync.Pool (pool.waitTurn); a timer made in an earlier bubble
	// must not be selected on in this one: two collections empty the pool and its victim cache
	runtime.GC()
	runtime.GC()

	encs, enc := common.Encs()

	c26MR.FlushAll()

	stcache := []int{0, 4000}[r.Draw("state_cache", 0, 1)]
	nblocks := r.Draw("blocks", 1, 6)

	if r.Tier == "thorough" {
		nblocks += r.Choose(6)
	}

	bwcache := r.Draw("block_writer_state_cache", 0, 3)

	gen := newDBGen(r, 4)
	if r.Flag("big_blocks") {
		gen.manyKeys = 120
	}

	// the leveldb side: block write databases, temps and the permanent database on one memory storage
	lst := leveldbstorage.NewMemStorage()

	r.OnEnd(func() { _ = lst.Close() })

	lperm, err := isaacdatabase.NewLeveldbPermanent(lst, encs, enc, stcache)
	if err != nil {
		panic(err)
	}

	// the redis side
	var breakAfter *int

	breakHard := false

	noRetry := r.Flag("no_client_retry") // then no connection faults
	prefix := "verif"

	var conns []net.Conn

	openRedis := func() (*isaacdatabase.RedisPermanent, *redisstorage.Storage, error) {
		opt := &redis.Options{
			Addr: "simulated:6379",
			Dialer: func(context.Context, string, string) (net.Conn, error) {
				c26DialReq <- struct{}{}

				a := <-c26DialResp

				conns = append(conns, a)

				return &c26Conn{Conn: a, left: &breakAfter, hard: &breakHard, r: r}, nil
			},
			PoolSize:         1 + r.Choose(3),
			DisableIndentity: true,
			Protocol:         2,
			// the client's retry back-off takes its jitter from a process-wide generator inside go-redis, which a replay
			// in a fresh process would not repeat: equal bounds make the back-off constant
			MinRetryBackoff: 8 * time.Millisecond,
			MaxRetryBackoff: 8 * time.Millisecond,
			DialTimeout:     time.Minute,
			ReadTimeout:     time.Minute,
			WriteTimeout:    time.Minute,
		}

		if noRetry {
			opt.MaxRetries = -1
		}

		rst, err := redisstorage.NewStorage(context.Background(), opt, prefix)
		if err != nil {
			return nil, nil, err
		}

		rperm, err := isaacdatabase.NewRedisPermanent(rst, encs, enc, stcache)
		if err != nil {
			_ = rst.Close()

			return nil, nil, err
		}

		return rperm, rst, nil
	}

	var (
		rperm *isaacdatabase.RedisPermanent
		rst   *redisstorage.Storage
	)

	r.OnEnd(func() {
		if rst != nil {
			_ = rst.Close()
		}

		for _, c := range conns {
			_ = c.Close()
		}
	})

	var chain []*dbBlock

	compare := func(when string) {
		u := universeOf(chain)

		var lr, rr map[string]string

		var lerr, rerr error

		lr, lerr = permReads(lperm, u)
		rr, rerr = permReads(rperm, u)

		r.Checked()

		if lerr != nil {
			panic(fmt.Sprintf("leveldb permanent read failed: %v", lerr))
		}

		if rerr != nil {
			r.Fail("redis-read-error", "error", "%s: a read of the redis permanent database failed where the leveldb one answers: %v", when, rerr)

			return
		}

		var diffs, kinds []string

		seen := map[string]bool{}

		keys := make([]string, 0, len(lr))
		for k := range lr {
			keys = append(keys, k)
		}

		sort.Strings(keys)

		for _, k := range keys {
			if lr[k] != rr[k] {
				diffs = append(diffs, fmt.Sprintf("%s: leveldb %.70s / redis %.70s", k, lr[k], rr[k]))

				if kd := readKind(k); !seen[kd] {
					seen[kd] = true
					kinds = append(kinds, kd)
				}
			}
		}

		if len(diffs) > 0 {
			if len(diffs) > 6 {
				diffs = append(diffs[:6], fmt.Sprintf("... and %d more", len(diffs)-6))
			}

			r.Fail("reads-differ", strings.Join(kinds, "+"), "%s (%d blocks merged, top height %d): %s", when, len(chain), chain[len(chain)-1].h, strings.Join(diffs, "; "))
		}
	}

	done := false

	r.Go("storage", func() {
		defer func() { done = true }()

		var err error

		if rperm, rst, err = openRedis(); err != nil {
			panic(fmt.Sprintf("open redis permanent: %+v", err))
		}

		h := base.GenesisHeight

		for i := 0; i < nblocks; i++ {
			b := gen.block(h)
			h++

			if r.Chance(1, 6) {
				h += base.Height(r.Choose(3)) // permanent databases do not require consecutive heights
			}

			bw := isaacdatabase.NewLeveldbBlockWrite(b.h, lst, encs, enc)

			// launch gives block writers a state cache (not to every imported block); sizes that never evict or always do
			switch bwcache {
			case 1:
				bw.SetStateCache(util.NewLFUGCache[string, [2]interface{}](1))
			case 2:
				bw.SetStateCache(util.NewLFUGCache[string, [2]interface{}](4000))
			case 3:
				if r.Chance(1, 2) {
					bw.SetStateCache(util.NewLFUGCache[string, [2]interface{}](4000))
				}
			}

			if err := bw.SetStates(b.states); err != nil {
				panic(err)
			}

			if err := bw.SetOperations(b.knownOps); err != nil {
				panic(err)
			}

			if err := bw.Write(); err != nil {
				panic(err)
			}

			if err := bw.SetBlockMap(b.bm); err != nil {
				panic(err)
			}

			if b.proof != nil {
				if err := bw.SetSuffrageProof(b.proof); err != nil {
					panic(err)
				}
			}

			temp, err := bw.TempDatabase()
			if err != nil {
				panic(err)
			}

			if err := lperm.MergeTempDatabase(context.Background(), temp); err != nil {
				panic(fmt.Sprintf("leveldb merge: %+v", err))
			}

			// the redis merge, maybe over a connection that breaks inside it: the client retries on a new
			// connection (every command of a merge is an idempotent write). A merge that fails all the same
			// is repeated below.
			if !noRetry && r.Chance(1, 4) {
				n := r.Choose(3000)
				breakAfter = &n
				breakHard = r.Chance(1, 2)
			}

			if err := rperm.MergeTempDatabase(context.Background(), temp); err != nil {
				if breakAfter == nil {
					r.Fail("redis-merge-error", "error", "merge of block %d into redis failed without an injected fault: %+v", b.h, err)

					return
				}

				// the merge failed in the middle: the node merges the same temp database again (Center retries
				// un-merged temps); once that succeeds the two back-ends must agree again, whatever the first
				// attempt had already written
				r.Probe("merge_failed_after_connection_reset")
				breakAfter = nil

				if err := rperm.MergeTempDatabase(context.Background(), temp); err != nil {
					r.Probe("repeated_merge_failed_unjudged")

					return
				}

				r.Probe("merge_repeated_after_connection_reset")
			}

			breakAfter = nil

			chain = append(chain, b)
			r.Op("merged block %d: %d states, %d known ops, suffrage=%v policy=%v", b.h, len(b.states), len(b.knownOps), b.proof != nil, b.policy != nil)

			if r.Chance(2, 3) || i == nblocks-1 {
				compare(fmt.Sprintf("after merging block %d", b.h))
			}

			if r.Chance(1, 3) {
				r.Fault("reopen")
				r.Op("reopen both")

				_ = rst.Close()

				if rperm, rst, err = openRedis(); err != nil {
					r.Fail("redis-reopen-error", "error", "reopening the redis permanent database failed: %+v", err)

					return
				}

				if lperm, err = isaacdatabase.NewLeveldbPermanent(lst, encs, enc, stcache); err != nil {
					panic(err)
				}

				compare(fmt.Sprintf("after reopening at block %d", b.h))
			}
		}
	})

	r.Sched(simkit.SchedOpts{MaxSteps: 3000000, MaxSim: time.Hour, Until: func() bool { return done }, KeepGoing: true})

	if !done {
		r.Fail("liveness", "storage", "the merge/read sequence did not finish")
	}
}

func init() {
	simkit.Register(&simkit.Harness{
		ID:          "C26",
		Run:         c26Run,
		Setup:       c26Setup,
		Real:        []string{"isaacdatabase.RedisPermanent", "storage/redis.Storage", "go-redis v9 client", "isaacdatabase.LeveldbPermanent (the reference)", "isaacdatabase.LeveldbBlockWrite / TempLeveldb on memory goleveldb"},
		Stub:        []string{"Redis server: miniredis v2.33 in-process, every connection a net.Pipe served inside the run (no socket traffic)", "connection resets inside merges (harness)"},
		Rule:        "each run merges 1-6 (thorough up to 11) generated blocks (states incl. suffrage and policy changes, known operations, optional 120+ state blocks, height gaps) into a RedisPermanent and a LeveldbPermanent from the same TempLeveldb; after merges and after reopening both, every PermanentDatabase read (last/by-height block maps and their bytes, suffrage proofs by suffrage height / block height / last and their bytes, states and their bytes, in-state and known operations, last policy) is compared between the two. In a quarter of the merges (client retry enabled) the Redis connection breaks after a drawn number of bytes and the client continues on a new connection; a merge that fails all the same is repeated (as Center does with un-merged temps) and the comparison goes on. distinct = event-log hash",
		Assumptions: []string{"miniredis implements the Redis commands used (GET/SET/EXISTS/ZADD/ZRANGE BYLEX/SCAN/DEL/pipelines) faithfully", "a merge that returns an error is not a merged block: the run ends unjudged"},
	})
}
