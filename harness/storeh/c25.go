package storeh

import (
	"bytes"
	"fmt"
	"sort"
	"strings"

	"github.com/pkg/errors"
	"github.com/spikeekips/mitum/simkit"
	"github.com/spikeekips/mitum/storage"
	leveldbstorage "github.com/spikeekips/mitum/storage/leveldb"
	"github.com/spikeekips/mitum/vh/simdisk"
	leveldbutil "github.com/syndtr/goleveldb/leveldb/util"
)

var c25Alphabet = []byte{0x00, 0x01, 'a', 'b', 0xfe, 0xff}

func c25Bytes(r *simkit.Run, minlen, maxlen int) []byte {
	n := minlen + r.Choose(maxlen-minlen+1)
	b := make([]byte, n)

	for i := range b {
		b[i] = c25Alphabet[r.Choose(len(c25Alphabet))]
	}

	return b
}

type c25Model map[string]string

func (m c25Model) view(prefix []byte) map[string]string {
	v := map[string]string{}
	for k, val := range m {
		if strings.HasPrefix(k, string(prefix)) {
			v[k[len(prefix):]] = val
		}
	}

	return v
}

func (m c25Model) clone() c25Model {
	c := c25Model{}
	for k, v := range m {
		c[k] = v
	}

	return c
}

func c25Dump(st *leveldbstorage.Storage) (c25Model, error) {
	m := c25Model{}
	err := st.Iter(nil, func(k, v []byte) (bool, error) {
		m[string(k)] = string(v)

		return true, nil
	}, true)

	return m, err
}

func c25Diff(got, want c25Model) string {
	var sb strings.Builder

	for k, v := range want {
		if g, ok := got[k]; !ok {
			fmt.Fprintf(&sb, "missing %q; ", k)
		} else if g != v {
			fmt.Fprintf(&sb, "%q=%q want %q; ", k, g, v)
		}
	}

	for k := range got {
		if _, ok := want[k]; !ok {
			fmt.Fprintf(&sb, "unexpected %q; ", k)
		}
	}

	return sb.String()
}

type c25Tenant struct {
	n      int
	prefix []byte
	pst    *leveldbstorage.PrefixStorage
	closed bool
}

func c25Run(r *simkit.Run) {
	if r.Flag("concurrent_tenants") {
		c25Concurrent(r)

		return
	}

	disk := simdisk.New()

	st, err := leveldbstorage.NewStorage(disk, nil)
	if err != nil {
		panic(err)
	}

	r.OnEnd(func() { _ = st.Close() })

	ntenants := r.Draw("tenants", 2, 4)
	tenants := make([]*c25Tenant, ntenants)

	for i := range tenants {
		p := c25Bytes(r, 1, 2)
		if i > 0 && r.Chance(1, 3) {
			// one prefix a prefix of another
			p = append(append([]byte(nil), tenants[i-1].prefix...), c25Alphabet[r.Choose(len(c25Alphabet))])
		}

		tenants[i] = &c25Tenant{n: i, prefix: p, pst: leveldbstorage.NewPrefixStorage(st, p)}
	}

	model := c25Model{}
	nsteps := r.Draw("steps", 3, 24)
	faults := r.Flag("faults")

	type kv struct {
		k, v []byte
		del  bool
	}

	type step struct {
		kind   int
		t      int
		k, v   []byte
		batch  []kv
		start  []byte
		limit  []byte
		asc    bool
		rmlim  int
		failAt int
	}

	steps := make([]step, nsteps)
	val := 0

	for i := range steps {
		s := step{kind: []int{0, 0, 0, 1, 2, 3, 4, 4, 5, 5, 6, 7, 8, 9, 10}[r.Choose(15)], t: r.Choose(ntenants)}
		s.k = c25Bytes(r, 1, 3)
		val++
		s.v = []byte(fmt.Sprintf("v%d", val))

		switch s.kind {
		case 4: // batch
			for j := r.Choose(5) + 1; j > 0; j-- {
				val++
				s.batch = append(s.batch, kv{k: c25Bytes(r, 1, 3), v: []byte(fmt.Sprintf("v%d", val)), del: r.Chance(1, 4)})
			}

			s.failAt = -1
			if faults && r.Chance(1, 3) {
				s.failAt = r.Choose(4)
			}
		case 5, 8: // iter with range / batch remove with range
			if r.Chance(2, 3) {
				s.start = c25Bytes(r, 1, 2)
			}

			if r.Chance(2, 3) {
				s.limit = c25Bytes(r, 1, 2)
			}

			// goleveldb itself panics on an inverted range once table files exist; not mitum's concern
			if s.start != nil && s.limit != nil && bytes.Compare(s.start, s.limit) >= 0 {
				s.start, s.limit = s.limit, s.start

				if bytes.Equal(s.start, s.limit) {
					s.limit = nil
				}
			}

			s.asc = r.Chance(1, 2)
			s.rmlim = 1 + r.Choose(5)
		}

		steps[i] = s
	}

	describe := func(s step) string {
		return fmt.Sprintf("kind=%d tenant=%d(prefix %q) k=%q start=%q limit=%q asc=%v rmlim=%d batch=%d failAt=%d", s.kind, s.t, tenants[s.t].prefix, s.k, s.start, s.limit, s.asc, s.rmlim, len(s.batch), s.failAt)
	}

	compare := func(s step, alt c25Model) {
		got, err := c25Dump(st)
		if err != nil {
			r.Fail("dump-error", "error", "iterating the raw storage: %v", err)
		}

		r.Checked()

		if d := c25Diff(got, model); d != "" {
			if alt != nil {
				if c25Diff(got, alt) == "" {
					// the failed batch was applied as a whole: allowed
					for k := range model {
						delete(model, k)
					}

					for k, v := range alt {
						model[k] = v
					}

					return
				}

				r.Fail("partial-batch", "after-write-error", "after an injected write error the storage holds neither the state before nor after the batch: %s | step: %s", d, describe(s))
			}

			outside := false

			tp := string(tenants[s.t].prefix)
			for k := range got {
				if _, ok := model[k]; !ok && !strings.HasPrefix(k, tp) {
					outside = true
				}
			}

			for k := range model {
				if _, ok := got[k]; !ok && !strings.HasPrefix(k, tp) {
					outside = true
				}
			}

			sig := fmt.Sprintf("kind%d", s.kind)
			if outside {
				sig += ":touches-keys-outside-prefix"
			}

			if tenants[s.t].closed {
				sig += ":tenant-closed"
			}

			r.Fail("storage-differs-from-model", sig, "after step [%s] the storage differs from the map model: %s", describe(s), d)
		}
	}

	restart := func() {
		_ = st.Close()

		disk = disk.Clone()

		nst, err := leveldbstorage.NewStorage(disk, nil)
		if err != nil {
			r.Fail("reopen-error", "reopen", "reopen: %v", err)
		}

		st = nst

		for _, tt := range tenants {
			tt.pst = leveldbstorage.NewPrefixStorage(st, tt.prefix)
			tt.closed = false
		}
	}

	r.Go("client", func() {
		for _, s := range steps {
			t := tenants[s.t]
			full := string(t.prefix) + string(s.k)
			r.Op("%s", describe(s))

			expectClosed := func(err error, what string) bool {
				if t.closed {
					if err == nil {
						r.Fail("closed-tenant-acted", what, "%s on a closed prefix storage returned no error", what)
					}

					return true
				}

				if err != nil {
					r.Fail("unexpected-error", what, "%s: %v", what, err)
				}

				return false
			}

			switch s.kind {
			case 0: // put
				if !expectClosed(t.pst.Put(s.k, s.v, nil), "put") {
					model[full] = string(s.v)
				}
			case 1: // delete
				if !expectClosed(t.pst.Delete(s.k, nil), "delete") {
					delete(model, full)
				}
			case 2: // get
				b, found, err := t.pst.Get(s.k)
				if !expectClosed(err, "get") {
					want, ok := model[full]
					if found != ok || (ok && string(b) != want) {
						r.Fail("read-differs", "get", "Get(%q) through prefix %q = (%q,%v), model has (%q,%v)", s.k, t.prefix, b, found, want, ok)
					}
				}
			case 3: // exists
				found, err := t.pst.Exists(s.k)
				if !expectClosed(err, "exists") {
					if _, ok := model[full]; ok != found {
						r.Fail("read-differs", "exists", "Exists(%q) through prefix %q = %v, model %v", s.k, t.prefix, found, ok)
					}
				}
			case 4: // batch
				batch := t.pst.NewBatch()
				alt := model.clone()

				for _, e := range s.batch {
					if e.del {
						batch.Delete(e.k)
						delete(alt, string(t.prefix)+string(e.k))
					} else {
						batch.Put(e.k, e.v)
						alt[string(t.prefix)+string(e.k)] = string(e.v)
					}
				}

				if s.failAt >= 0 && !t.closed {
					disk.FailFrom(disk.Len() + s.failAt)
					r.Fault("disk_write_error")
				}

				err := t.pst.Batch(batch, nil)
				disk.Heal()

				switch {
				case t.closed:
					expectClosed(err, "batch")
				case err != nil && s.failAt >= 0:
					// goleveldb stays in its error state after a failed journal
					// write; recovery is a restart from what reached the disk
					r.Probe("batch_failed_by_injected_error")
					restart()
					compare(s, alt)

					continue
				case err != nil:
					r.Fail("unexpected-error", "batch", "batch: %v", err)
				default:
					for k := range model {
						delete(model, k)
					}

					for k, v := range alt {
						model[k] = v
					}
				}
			case 5: // iter
				var rng *leveldbutil.Range
				if s.start != nil || s.limit != nil {
					rng = &leveldbutil.Range{Start: s.start, Limit: s.limit}
				}

				var gotk []string

				err := t.pst.Iter(rng, func(k, v []byte) (bool, error) {
					gotk = append(gotk, string(k)+"="+string(v))

					return true, nil
				}, s.asc)

				if t.closed {
					// a closed tenant may refuse or see nothing, but must not be shown keys of other prefixes
					if err == nil && len(gotk) > 0 {
						r.Fail("closed-tenant-observes", "iter-after-close", "Iter on closed prefix storage %q returned %q", t.prefix, gotk)
					}

					compare(s, nil)

					continue
				}

				if !expectClosed(err, "iter") {
					var keys []string

					view := model.view(t.prefix)
					for k := range view {
						if s.start != nil && bytes.Compare([]byte(k), s.start) < 0 {
							continue
						}

						if s.limit != nil && bytes.Compare([]byte(k), s.limit) >= 0 {
							continue
						}

						keys = append(keys, k)
					}

					sort.Strings(keys)

					if !s.asc {
						for i, j := 0, len(keys)-1; i < j; i, j = i+1, j-1 {
							keys[i], keys[j] = keys[j], keys[i]
						}
					}

					var want []string
					for _, k := range keys {
						want = append(want, k+"="+view[k])
					}

					r.Checked()

					if fmt.Sprintf("%q", gotk) != fmt.Sprintf("%q", want) {
						r.Fail("read-differs", "iter", "Iter(start=%q,limit=%q,asc=%v) through prefix %q visited %q, model says %q", s.start, s.limit, s.asc, t.prefix, gotk, want)
					}
				}
			case 6: // remove whole prefix through the tenant
				err := t.pst.Remove()
				if !t.closed {
					if err != nil {
						r.Fail("unexpected-error", "remove", "Remove: %v", err)
					}

					for k := range model {
						if strings.HasPrefix(k, string(t.prefix)) {
							delete(model, k)
						}
					}
				}
				// on a closed tenant Remove may or may not delete the tenant's own
				// keys; it must not touch anything else (compare below)
				if t.closed {
					got, _ := c25Dump(st)
					for k := range model {
						if _, ok := got[k]; !ok && strings.HasPrefix(k, string(t.prefix)) {
							delete(model, k)
						}
					}
				}
			case 7: // RemoveByPrefix on the raw storage
				if err := leveldbstorage.RemoveByPrefix(st, t.prefix); err != nil {
					r.Fail("unexpected-error", "removebyprefix", "RemoveByPrefix: %v", err)
				}

				for k := range model {
					if strings.HasPrefix(k, string(t.prefix)) {
						delete(model, k)
					}
				}
			case 8: // BatchRemove on the raw storage with a range of full keys
				var start, limit []byte
				if s.start != nil {
					start = append(append([]byte(nil), t.prefix...), s.start...)
				}

				if s.limit != nil {
					limit = append(append([]byte(nil), t.prefix...), s.limit...)
				}

				var rng *leveldbutil.Range
				if start != nil || limit != nil {
					rng = &leveldbutil.Range{Start: start, Limit: limit}
				}

				want := 0

				for k := range model {
					if start != nil && bytes.Compare([]byte(k), start) < 0 {
						continue
					}

					if limit != nil && bytes.Compare([]byte(k), limit) >= 0 {
						continue
					}

					delete(model, k)
					want++
				}

				n, err := leveldbstorage.BatchRemove(st, rng, s.rmlim)
				if err != nil {
					r.Fail("unexpected-error", "batchremove", "BatchRemove: %v", err)
				}

				if n != want {
					r.Fail("batchremove-count", "count", "BatchRemove(range [%q,%q), limit %d) reported %d removed, model removed %d", start, limit, s.rmlim, n, want)
				}
			case 9: // close the tenant (rare)
				if r.Tape != nil {
					_ = t.pst.Close()
					t.closed = true
				}
			case 10: // clean restart of the whole storage from the simulated disk
				restart()
				r.Fault("clean_restart")
			}

			compare(s, nil)
		}
	})

	r.Sched(simkit.SchedOpts{MaxSteps: 400000})

	if r.Unfinished() {
		r.Fail("liveness", "storage", "client did not finish")
	}
}

func c25Concurrent(r *simkit.Run) {
	st := leveldbstorage.NewMemStorage()

	r.OnEnd(func() { _ = st.Close() })

	// prefixes none of which is a prefix of another, but adjacent at byte boundaries
	sets := [][][]byte{
		{{'a'}, {'b'}, {'a' + 2}},
		{{'a', 0xff}, {'b'}, {'b' + 1, 0x00}},
		{{0xff, 0xfe}, {0xff, 0xff}, {0xfe}},
		{{0x00}, {0x01}, {0x01 + 1, 0x00}},
	}
	prefixes := sets[r.Draw("prefix_set", 0, len(sets)-1)]
	ntenants := r.Draw("tenants", 2, 3)
	nops := r.Draw("ops_per_tenant", 2, 10)

	type op struct {
		kind int
		k, v []byte
	}

	plans := make([][]op, ntenants)
	val := 0

	for t := range plans {
		for i := 0; i < nops; i++ {
			val++
			plans[t] = append(plans[t], op{kind: []int{0, 0, 0, 1, 2, 3, 4}[r.Choose(7)], k: c25Bytes(r, 1, 2), v: []byte(fmt.Sprintf("v%d", val))})
		}
	}

	for t := 0; t < ntenants; t++ {
		t := t
		pst := leveldbstorage.NewPrefixStorage(st, prefixes[t])
		model := map[string]string{}

		r.Go(fmt.Sprintf("tenant%d", t), func() {
			for _, o := range plans[t] {
				switch o.kind {
				case 0:
					if err := pst.Put(o.k, o.v, nil); err != nil {
						r.Fail("unexpected-error", "put", "put: %v", err)
					}

					model[string(o.k)] = string(o.v)
				case 1:
					if err := pst.Delete(o.k, nil); err != nil {
						r.Fail("unexpected-error", "delete", "delete: %v", err)
					}

					delete(model, string(o.k))
				case 2:
					b, found, err := pst.Get(o.k)
					if err != nil && !errors.Is(err, storage.ErrNotFound) {
						r.Fail("unexpected-error", "get", "get: %v", err)
					}

					if want, ok := model[string(o.k)]; ok != found || (ok && want != string(b)) {
						r.Fail("read-differs", "concurrent-get", "tenant %q Get(%q)=(%q,%v) want (%q,%v)", prefixes[t], o.k, b, found, want, ok)
					}
				case 3:
					if err := pst.Remove(); err != nil {
						r.Fail("unexpected-error", "remove", "remove: %v", err)
					}

					for k := range model {
						delete(model, k)
					}
				case 4:
				}

				// own view equals own model, whatever the other tenants are doing
				got := map[string]string{}
				if err := pst.Iter(nil, func(k, v []byte) (bool, error) {
					got[string(k)] = string(v)

					return true, nil
				}, true); err != nil {
					r.Fail("unexpected-error", "iter", "iter: %v", err)
				}

				r.Checked()

				if d := c25Diff(got, model); d != "" {
					r.Fail("tenant-view-differs", "concurrent", "tenant %q sees a view that differs from its own model while other tenants run: %s", prefixes[t], d)
				}

				r.Event(fmt.Sprintf("t%d kind%d", t, o.kind))
			}
		})
	}

	r.Sched(simkit.SchedOpts{MaxSteps: 400000, Stick: r.DrawStick()})

	if r.Unfinished() {
		r.Fail("liveness", "storage", "tenants did not finish")
	}
}

func init() {
	simkit.Register(&simkit.Harness{
		ID:          "C25",
		Run:         c25Run,
		Real:        []string{"leveldbstorage.PrefixStorage", "leveldbstorage.Storage", "leveldbstorage.RemoveByPrefix", "leveldbstorage.BatchRemove", "goleveldb (on the simulated disk / memory storage)"},
		Stub:        []string{"disk: simdisk (in-memory goleveldb storage with op log, error injection, clone for restart)"},
		Rule:        "sequential population: 2-4 tenants with adversarial prefixes (0x00/0xff bytes, one prefix extending another), 3-24 steps of Put/Get/Exists/Delete/Batch/Iter(range, both orders)/Remove/RemoveByPrefix/BatchRemove(range, limit 1..5)/Close/clean restart, in fault runs a write error injected at a drawn disk operation inside a batch; after every step the whole raw storage is dumped and compared with one sorted-map model. concurrent population: 2-3 tenants with non-nested adjacent prefixes run as tasks under the seeded kernel and compare their own view with their own model after each operation. distinct = event-log hash",
		Assumptions: []string{"after an injected write error the failed batch may be entirely absent or entirely present, never partial", "keys and range bounds are non-empty (PrefixStorage refuses empty keys)"},
	})
}
