package storeh

import (
	"context"
	"fmt"
	"strings"
	"time"

	"github.com/spikeekips/mitum/base"
	"github.com/spikeekips/mitum/isaac"
	isaacdatabase "github.com/spikeekips/mitum/isaac/database"
	"github.com/spikeekips/mitum/simkit"
	leveldbstorage "github.com/spikeekips/mitum/storage/leveldb"
	"github.com/spikeekips/mitum/util"
	"github.com/spikeekips/mitum/util/valuehash"
	"github.com/spikeekips/mitum/vh/common"
)

type c22Op struct {
	n       int
	factN   int
	op      isaac.DummyOperation
	added   bool
	addedAt time.Time // fake clock just before the (first successful) SetOperation
	addedHi time.Time // fake clock right after it returned: the pool's own stamp lies in [addedAt, addedHi]
	addSeq  int64
}

func c22Run(r *simkit.Run) {
	encs, enc := common.Encs()
	st := leveldbstorage.NewMemStorage()

	r.OnEnd(func() { _ = st.Close() })

	pool, err := isaacdatabase.NewTempPool(st, encs, enc, []int{0, 2, 100}[r.Draw("opcache", 0, 2)])
	if err != nil {
		panic(err)
	}

	nfacts := r.Draw("facts", 1, 5)
	nopsTotal := r.Draw("operations", 1, 10)
	concurrent := r.Flag("concurrent_clients")
	ties := r.Flag("same_instant_adds")

	facts := make([]isaac.DummyOperationFact, nfacts)
	for i := range facts {
		facts[i] = isaac.NewDummyOperationFact(util.UUID().Bytes(), valuehash.RandomSHA256())
	}

	ops := make([]*c22Op, nopsTotal)
	byHash := map[string]*c22Op{}

	for i := range ops {
		f := r.Choose(nfacts)

		op, err := isaac.NewDummyOperation(facts[f], common.Local(20+i).Privatekey(), common.NetworkID)
		if err != nil {
			panic(err)
		}

		ops[i] = &c22Op{n: i, factN: f, op: op}
		byHash[op.Hash().String()] = ops[i]
	}

	rejectedEver := map[int]int64{} // op n -> seq at which a filter first rejected it
	scannedEver := map[int]bool{}   // op n was handed to a filter by some earlier call
	height := base.Height(33)

	type step struct {
		kind   int // 0 add, 1 hashes, 2 re-add, 3 restart
		op     *c22Op
		limit  uint64
		reject map[int]bool
		sleep  time.Duration
	}

	genSteps := func(n int) []step {
		var steps []step

		for i := 0; i < n; i++ {
			s := step{kind: []int{0, 0, 0, 1, 1, 2, 3}[r.Choose(7)]}

			switch s.kind {
			case 0, 2:
				s.op = ops[r.Choose(len(ops))]
			case 1:
				s.limit = uint64(1 + r.Choose(6))
				s.reject = map[int]bool{}

				if r.Chance(1, 2) {
					for j := range ops {
						if r.Chance(1, 4) {
							s.reject[j] = true
						}
					}
				}
			}

			if !ties || r.Chance(1, 2) {
				s.sleep = time.Duration(1+r.Choose(5)) * time.Microsecond
			}

			steps = append(steps, s)
		}

		return steps
	}

	describe := func(res [][2]util.Hash) string {
		var sb strings.Builder
		for _, x := range res {
			if o, ok := byHash[x[0].String()]; ok {
				fmt.Fprintf(&sb, "op%d(fact%d) ", o.n, o.factN)
			} else {
				fmt.Fprintf(&sb, "unknown(%s) ", x[0])
			}
		}

		return sb.String()
	}

	poolState := func() string {
		var sb strings.Builder
		for _, o := range ops {
			if o.added {
				fmt.Fprintf(&sb, "op%d(fact%d,at=%dns) ", o.n, o.factN, o.addedAt.UnixNano()%1000000000)
			}
		}

		return sb.String()
	}

	// judge one OperationHashes result; strict=false leaves out the clauses that need a sequential history
	judge := func(s step, res [][2]util.Hash, seen map[int]bool, callSeq int64, strict bool, ctxdesc string) {
		r.Checked()

		if uint64(len(res)) > s.limit {
			r.Fail("over-limit", "count", "asked for %d, got %d: %s", s.limit, len(res), describe(res))
		}

		seenOp := map[string]bool{}
		seenFact := map[string]bool{}

		for _, x := range res {
			if seenOp[x[0].String()] {
				r.Fail("duplicate-operation", "dup-op", "%s: result lists an operation twice: %s | pool: %s", ctxdesc, describe(res), poolState())
			}

			if seenFact[x[1].String()] {
				r.Fail("duplicate-fact", "dup-fact", "%s: result lists a fact twice: %s | pool: %s", ctxdesc, describe(res), poolState())
			}

			seenOp[x[0].String()] = true
			seenFact[x[1].String()] = true

			o, ok := byHash[x[0].String()]
			if !ok || !o.op.Fact().Hash().Equal(x[1]) {
				r.Fail("not-stored", "unknown-op", "%s: result has an entry that was never added: %s", ctxdesc, describe(res))

				continue
			}

			if !o.added && strict {
				r.Fail("not-stored", "not-yet-added", "%s: op%d returned but never added", ctxdesc, o.n)
			}

			if s.reject[o.n] {
				r.Fail("filter-ignored", "rejected-by-this-filter", "%s: op%d does not pass the filter of this call but was returned: %s", ctxdesc, o.n, describe(res))
			}

			if at, was := rejectedEver[o.n]; was && at < callSeq {
				r.Fail("filtered-out-returned-again", "returned-after-rejection", "%s: op%d was filtered out by an earlier call (seq %d) and is returned again: %s", ctxdesc, o.n, at, describe(res))
			}
		}

		if !strict {
			return
		}

		for _, x := range res {
			o := byHash[x[0].String()]
			if o == nil {
				continue
			}

			if _, found, err := pool.Operation(context.Background(), x[0]); err != nil || !found {
				r.Fail("not-stored", "operation-lookup", "%s: op%d returned by OperationHashes but Operation(hash) found=%v err=%v", ctxdesc, o.n, found, err)
			}

			// most recent of its fact among the eligible ones
			for _, p := range ops {
				if p == o || p.factN != o.factN || !p.added || s.reject[p.n] {
					continue
				}

				if _, was := rejectedEver[p.n]; was {
					continue
				}

				if p.addedAt.After(o.addedHi) {
					sig := "newer-beyond-the-limit-window"

					switch {
					case seen[p.n]:
						sig = "newer-was-scanned"
					case scannedEver[p.n]:
						// an earlier call saw it, this one does not although it is later in the order than what it returned
						sig = "newer-dropped-by-earlier-call"
					}

					r.Probe("older_duplicate_chosen")

					if !r.Fail("not-most-recent", sig, "%s: limit=%d returned op%d for fact%d although op%d of the same fact was added later and is eligible; result: %s | pool: %s | scanned by this call: %v | scanned by earlier calls: %v",
						ctxdesc, s.limit, o.n, o.factN, p.n, describe(res), poolState(), keysOf(seen), keysOf(scannedEver)) {
						break
					}
				}
			}
		}
	}

	doStep := func(who string, s step, strict bool) {
		if s.sleep > 0 {
			time.Sleep(s.sleep)
		}

		switch s.kind {
		case 0, 2:
			before := time.Now()
			seq := r.Seq()

			added, err := pool.SetOperation(context.Background(), s.op.op)
			if err != nil {
				r.Fail("set-error", "set", "SetOperation: %v", err)
			}

			r.Event(fmt.Sprintf("%s add op%d -> %v", who, s.op.n, added))

			switch {
			case added && s.op.added && strict:
				r.Fail("add-not-idempotent", "added-twice", "SetOperation(op%d) returned true twice", s.op.n)
			case added:
				s.op.added = true
				s.op.addedAt = before
				s.op.addedHi = time.Now()
				s.op.addSeq = seq
			}
		case 1:
			seen := map[int]bool{}
			rejectedNow := map[int]bool{}
			callSeq := r.Seq()
			height++

			res, err := pool.OperationHashes(context.Background(), height, s.limit, func(m isaac.PoolOperationRecordMeta) (bool, error) {
				o, ok := byHash[m.Operation().String()]
				if !ok {
					return true, nil
				}

				seen[o.n] = true

				if s.reject[o.n] {
					rejectedNow[o.n] = true

					return false, nil
				}

				return true, nil
			})
			if err != nil {
				r.Fail("hashes-error", "error", "OperationHashes: %v", err)
			}

			r.Event(fmt.Sprintf("%s hashes limit=%d -> %s", who, s.limit, describe(res)))
			// a rejection binds later calls only once the rejecting call has returned
			retSeq := r.Seq()

			defer func() {
				for n := range seen {
					scannedEver[n] = true
				}

				for n := range rejectedNow {
					if _, was := rejectedEver[n]; !was {
						rejectedEver[n] = retSeq
					}
				}
			}()

			judge(s, res, seen, callSeq, strict, fmt.Sprintf("%s OperationHashes(limit=%d, reject=%v)", who, s.limit, keysOf(s.reject)))
		case 3:
			np, err := isaacdatabase.NewTempPool(st, encs, enc, 0)
			if err != nil {
				panic(err)
			}

			pool = np
			r.Fault("pool_restart")
			r.Event(who + " restart")
		}
	}

	r.PanicIsViolation()

	if !concurrent {
		steps := genSteps(r.Draw("steps", 2, 14))
		r.Go("client", func() {
			for _, s := range steps {
				doStep("c0", s, true)
			}
		})
		r.Sched(simkit.SchedOpts{MaxSteps: 200000})
	} else {
		nclients := r.Draw("clients", 2, 3)
		plans := make([][]step, nclients)
		for c := range plans {
			for _, s := range genSteps(r.Draw("steps", 1, 6)) {
				if s.kind == 3 {
					s.kind = 1
					s.limit = 3
				}

				plans[c] = append(plans[c], s)
			}
		}

		for c := range plans {
			c := c
			r.Go(fmt.Sprintf("client%d", c), func() {
				for _, s := range plans[c] {
					doStep(fmt.Sprintf("c%d", c), s, false)
				}
			})
		}

		r.Sched(simkit.SchedOpts{MaxSteps: 200000, Stick: r.DrawStick()})

		// after the concurrent phase, one strict sequential call
		final := step{kind: 1, limit: uint64(1 + r.Choose(6)), reject: map[int]bool{}}
		r.Go("final", func() { time.Sleep(time.Millisecond); doStep("final", final, true) })
		r.Sched(simkit.SchedOpts{MaxSteps: 200000})
	}

	if r.Unfinished() {
		r.Fail("liveness", "pool", "clients did not finish")
	}
}

func keysOf(m map[int]bool) []int {
	var k []int
	for i := 0; i < 64; i++ {
		if m[i] {
			k = append(k, i)
		}
	}

	return k
}

func init() {
	simkit.Register(&simkit.Harness{
		ID:          "C22",
		Run:         c22Run,
		Real:        []string{"isaacdatabase.TempPool (SetOperation/OperationHashes/Operation/setRemoveNewOperations)", "leveldbstorage", "goleveldb on memory storage", "util.BaseJobWorker"},
		Stub:        []string{"operations are isaac.DummyOperation (test-tagged type of the repository) signed with different keys over shared facts"},
		Rule:        "each run draws 1-5 facts, 1-10 operations (several per fact, different signers), a sequence of 2-14 steps (SetOperation, re-add, OperationHashes with limit 1..6 and a random reject-set filter, pool restart) on one client, or 2-3 concurrent clients followed by a strict sequential call; adds are separated on the fake clock except in deliberate tie runs. Oracle per call, from the statement: <= limit, distinct ops and facts, every entry added and found by Operation(), passes this filter, never an op rejected by an earlier filter, and no eligible later-added op of the same fact exists. distinct = event-log hash",
		Assumptions: []string{"'most recently added' is judged by the fake clock read just before SetOperation; operations added at the same instant are unordered", "under concurrent clients only the structural clauses are judged; the recency clause is judged at quiescence"},
	})
}
