package storeh

import (
	"fmt"

	"github.com/spikeekips/mitum/base"
	"github.com/spikeekips/mitum/simkit"
	"github.com/spikeekips/mitum/vh/simdisk"
)

func c21Run(r *simkit.Run) {
	disk := simdisk.New()
	stcache := []int{0, 4000}[r.Draw("state_cache", 0, 1)] // never evicting: the LFU cache (bluele/gcache) evicts in Go map order, which no seed controls

	sys, err := openDBSys(disk, stcache)
	if err != nil {
		panic(err)
	}

	r.OnEnd(func() { sys.close() })

	nblocks := r.Draw("blocks", 1, 4)
	gen := newDBGen(r, r.Draw("state_keys", 1, 4))

	// half of the runs look only at the race of the parallel batches of the permanent merge: one or two big
	// blocks, each merged, crash points in the merge phases only - short runs, many schedules of the batch jobs
	// (the permanent merge keeps the newest temp database: a block is merged once a later block exists)
	mergeRace := r.Flag("merge_race_focus")
	if mergeRace {
		nblocks = 2 + r.Choose(2)
	}

	// block sizes: small, more than one block-write batch (128), more than one permanent-merge batch (333)
	sizes := make([]int, nblocks)
	aligned := make([]bool, nblocks) // the number of records is a multiple of the block-write batch (128), or one off

	for i := range sizes {
		switch r.Choose(6) {
		case 4:
			aligned[i] = true
		case 0:
			sizes[i] = 140
		case 1, 2:
			sizes[i] = 350
		case 3:
			if r.Tier == "thorough" {
				sizes[i] = 700 // three permanent-merge batches
			}
		}
	}

	mergeAfter := make([]bool, nblocks)
	for i := range mergeAfter {
		mergeAfter[i] = r.Chance(2, 3)
	}

	if mergeRace {
		for i := range sizes {
			sizes[i] = 0
			if i < nblocks-1 {
				sizes[i] = []int{350, 350, 350, 700}[r.Choose(4)]
				if r.Tier == "thorough" && r.Chance(1, 4) {
					sizes[i] = 1100
				}
			}

			mergeAfter[i] = true
		}
	}

	maxPoints := 60
	if r.Tier == "thorough" {
		maxPoints = 400
	}

	model := &dbModel{}

	var chain []*dbBlock

	type phase struct {
		name   string
		lo, hi int
		before *dbModel // acknowledged before the phase began
		after  *dbModel // acknowledged after it returned
	}

	var phases []phase

	snapshot := func() *dbModel { return &dbModel{blocks: append([]*dbBlock(nil), model.blocks...)} }

	r.Go("history", func() {
		for i := 0; i < nblocks; i++ {
			h := base.GenesisHeight + base.Height(i)
			gen.manyKeys = 0

			if sizes[i] > 0 {
				gen.manyKeys = sizes[i]
			}

			gen.alignRecords = 0
			if aligned[i] && sizes[i] == 0 {
				gen.alignRecords = 128
			}

			b := gen.blockN(h, sizes[i])
			chain = append(chain, b)

			ph := phase{name: fmt.Sprintf("write block %d (%d states)", h, len(b.states)), lo: disk.Len(), before: snapshot()}

			if err := sys.writeBlock(b); err != nil {
				r.Fail("write-error", "error", "write block %d: %v", h, err)
			}

			model.blocks = append(model.blocks, b)
			ph.hi = disk.Len()
			ph.after = snapshot()
			phases = append(phases, ph)
			r.Op("%s: disk ops [%d,%d)", ph.name, ph.lo, ph.hi)

			if mergeAfter[i] {
				ph := phase{name: fmt.Sprintf("merge to permanent (top %d)", h), lo: disk.Len(), before: snapshot(), after: snapshot()}

				if err := sys.center.MergeAllPermanent(); err != nil {
					r.Fail("merge-error", "error", "MergeAllPermanent: %v", err)
				}

				ph.hi = disk.Len()
				phases = append(phases, ph)
				r.Op("%s: disk ops [%d,%d)", ph.name, ph.lo, ph.hi)
			}
		}
	})

	// the order in which the parallel batches of a permanent merge reach the disk: random walk, or priorities (PCT)
	r.Sched(simkit.SchedOpts{MaxSteps: 20000000, Stick: r.DrawStick(), PCT: []int{0, 1, 2, 3}[r.Draw("pct_depth", 0, 3)]})

	if r.Unfinished() {
		r.Fail("liveness", "database", "history did not finish")
	}

	ops := disk.Ops()
	u := universeOf(chain)
	total := 0

	for _, ph := range phases {
		total += ph.hi - ph.lo + 1
	}

	// crash points: every op index inside every phase when they fit the budget, else a tape-chosen sample
	type point struct {
		ph   int
		k    int
		mode simdisk.CrashMode
		torn int
	}

	var points []point

	for pi, ph := range phases {
		if mergeRace && ph.before.top() != ph.after.top() {
			continue // block-write phases are the other population's
		}

		for k := ph.lo; k <= ph.hi; k++ {
			points = append(points, point{ph: pi, k: k, mode: simdisk.ProcessCrash})

			if k < len(ops) && ops[k].Kind == simdisk.OpWrite && len(ops[k].Data) > 1 {
				points = append(points, point{ph: pi, k: k, mode: simdisk.TornWrite, torn: -1})
			}

			points = append(points, point{ph: pi, k: k, mode: simdisk.PowerLoss})
		}
	}

	exhaustive := len(points) <= maxPoints
	if !exhaustive {
		// the permanent-merge phases are short and are where the parallel batches race: all of their points first
		// (as far as the budget goes), the rest of the budget is a tape-chosen sample of the block-write phases
		sel := make([]point, 0, maxPoints)

		var rest []point

		for _, pt := range points {
			ph := phases[pt.ph]
			if ph.before.top() == ph.after.top() && len(sel) < maxPoints*2/3 {
				sel = append(sel, pt)
			} else {
				rest = append(rest, pt)
			}
		}

		for len(sel) < maxPoints && len(rest) > 0 {
			sel = append(sel, rest[r.Choose(len(rest))])
		}

		points = sel
		r.Probe("crash_points_sampled")
	} else {
		r.Probe("crash_points_exhaustive")
	}

	r.Do("crash-enumeration", func() {
		for _, pt := range points {
			ph := phases[pt.ph]
			torn := pt.torn

			if pt.mode == simdisk.TornWrite {
				torn = 1 + r.Choose(len(ops[pt.k].Data)-1)
			}

			d := simdisk.RebuildAt(ops, pt.k, pt.mode, torn)
			d.NoLog = true

			modeName := [...]string{"process-crash", "torn-write", "power-loss"}[pt.mode]
			r.Fault("crash:" + modeName)

			nsys, err := openDBSys(d, stcache)
			if err != nil {
				r.Probe("reopen_errors")
				r.Probe("reopen_error:" + modeName)

				continue
			}

			where := fmt.Sprintf("crash (%s) at disk op %d of [%d,%d] during %q", modeName, pt.k, ph.lo, ph.hi, ph.name)

			top := base.NilHeight

			switch m, found, err := nsys.center.LastBlockMap(); {
			case err != nil:
				r.Fail("read-error", "after-crash", "%s: LastBlockMap: %v", where, err)
			case found:
				top = m.Manifest().Height()
			}

			if top > ph.after.top() {
				r.Fail("future-block-visible", modeName, "%s: last height %d is above anything written (%d)", where, top, ph.after.top())
			}

			// durability of acknowledged blocks is claimed for process crashes (all completed writes survive), not for power loss
			if pt.mode != simdisk.PowerLoss && top < ph.before.top() {
				r.Fail("acknowledged-block-lost", modeName, "%s: last height after reopen is %d, but block %d had been committed before this phase began", where, top, ph.before.top())
			}

			visible := &dbModel{}
			for _, b := range ph.after.blocks {
				if b.h <= top {
					visible.blocks = append(visible.blocks, b)
				}
			}

			got, err := actualReads(nsys.center, u)
			if err != nil {
				r.Fail("read-error", "after-crash", "%s: %v", where, err)
			}

			r.Checked()

			if dd := got.diff(visible.expected(u)); dd != "" {
				phaseKind := "write"
				if ph.before.top() == ph.after.top() {
					phaseKind = "permanent-merge"
				}

				r.Fail("partial-block-visible", phaseKind+":"+kindsOf(dd), "%s: after reopening the last height is %d but the reads differ from the chain up to %d: %s", where, top, top, dd)
			}

			nsys.close()
		}
	})

	r.ProbeN("crash_points", len(points))
	r.ProbeN("disk_ops_in_phases", total)
}

func init() {
	simkit.Register(&simkit.Harness{
		ID:          "C21",
		Run:         c21Run,
		Real:        []string{"isaacdatabase.LeveldbBlockWrite/TempLeveldb/Center/LeveldbPermanent (block write, temp merge marker, parallel permanent merge, loadTemps, start-up MergeAllPermanent)", "leveldbstorage", "goleveldb recovery over simdisk"},
		Stub:        []string{"disk: simdisk (operation log; rebuild at any operation in three crash modes)"},
		Rule:        "each run draws a history of 1-4 blocks (small, >128 states, >333 states, or padded so that the number of records is a multiple of the 128-record block-write batch or one off it) with permanent merges; the kernel decides the completion order of the parallel merge batches. Then every disk-operation index inside every block-write and merge phase is a crash point, in three modes (all completed ops; op k torn to a prefix; everything after each file's last Sync dropped); when a history has more points than the budget (60 quick / 400 thorough) a tape-chosen sample is taken (probe crash_points_sampled vs crash_points_exhaustive). After each crash the storage is re-opened with launch's sequence and every read must equal the chain up to the visible last height; acknowledged blocks must survive process crashes. distinct = event-log hash",
		Assumptions: []string{"a failed reopen is counted (reopen_errors) and is not this property's violation", "power loss may lose acknowledged blocks (goleveldb does not sync its journal per write); only atomicity is judged there"},
	})
}
