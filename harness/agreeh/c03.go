// Package agreeh decides C03 (agreement: no two conflicting voteproofs for
// one stage point).
//
// Two sources feed one pool of voteproofs that pass the full validation a
// receiving node applies (Voteproof.IsValid and
// isaac.IsValidVoteproofWithSuffrage):
//
//   - a multi-node simulation (sim.go): n real Ballotboxes, SuffrageVotings on
//     real pools and stuck resolvers over a partitioned, lossy network, with at
//     most f equivocating nodes; what these honest components emit;
//   - an assembler: candidate voteproofs built with the exported constructors
//     from every ballot sign fact that exists in the run's history and from
//     expel operations signed by any suffrage nodes (the statement allows a cut
//     off node to sign expels of live nodes), including ill-formed ones.
//
// Oracle: per stage point (and fact class) all accepted MAJORITY voteproofs
// carry one majority fact. The signature of a violation says whether an
// accepted voteproof breaks one of the validation rules named by the property
// (an accepted-invalid voteproof) or whether both are well-formed by those
// rules.
package agreeh

import (
	"fmt"
	"math"
	"sort"
	"strings"

	"github.com/spikeekips/mitum/base"
	"github.com/spikeekips/mitum/isaac"
	"github.com/spikeekips/mitum/simkit"
	"github.com/spikeekips/mitum/util"
	"github.com/spikeekips/mitum/util/valuehash"
	"github.com/spikeekips/mitum/vh/common"
)

type agVP struct {
	vp     base.Voteproof
	origin string // "assembled" or "node<i> ballotbox" / "node<i> resolver"
	desc   string
	rule   string // first validation rule of the property this voteproof breaks ("" = well-formed)
	expels bool
}

type agWorld struct {
	r       *simkit.Run
	n       int
	th      base.Threshold
	q, f    int // exact: votes required of n, tolerated equivocators
	c       *common.Cluster
	idx     map[string]int
	foreign []base.LocalNode
	byz     map[int]bool
	H       base.Height
	B32     util.Hash
	p32     util.Hash
	avp32   isaac.ACCEPTVoteproof

	// history: class key -> member -> fact hashes signed with the member's own key
	signed map[string]map[int]map[string]bool
	// all ballot sign facts of the history, by class key and fact hash
	sfs map[string]map[string][]base.BallotSignFact
	// facts by hash
	facts map[string]base.BallotFact

	accepted []*agVP
	reported map[string]bool
	listed   map[string][]base.SuffrageExpelOperation // fact hash -> the expels it lists
}

func classKey(sp base.StagePoint, fact base.BallotFact) string {
	k := sp.String()
	if fact != nil && isaac.IsSuffrageConfirmBallotFact(fact) {
		k += "/suffrage-confirm"
	}

	return k
}

func agBuildWorld(r *simkit.Run) *agWorld {
	n := r.Draw("suffrage", 1, 7)
	th := []base.Threshold{67, 67.5, 70, 75, 80, 90, 100}[r.Draw("threshold", 0, 6)]

	t10 := int(math.Round(float64(th) * 10))

	w := &agWorld{
		r: r, n: n, th: th,
		q: (n*t10 + 999) / 1000,
		f: n * (1000 - t10) / 1000,
		c: common.NewCluster(0, n, th), idx: map[string]int{}, byz: map[int]bool{},
		H:      33,
		signed: map[string]map[int]map[string]bool{}, sfs: map[string]map[string][]base.BallotSignFact{}, facts: map[string]base.BallotFact{},
		reported: map[string]bool{},
	}

	for i, nd := range w.c.Nodes {
		w.idx[nd.Address().String()] = i
	}

	w.foreign = common.Locals(50, 3)

	// equivocators: at most f
	if w.f > 0 {
		nb := w.f
		if r.Chance(1, 4) {
			nb = r.Choose(w.f + 1)
		}

		for len(w.byz) < nb {
			w.byz[r.Choose(n)] = true
		}
	}

	r.Op("suffrage=%d threshold=%v required=%d tolerated-equivocators=%d equivocators=%v", n, th, w.q, w.f, w.byzList())

	w.p32, w.B32 = valuehash.RandomSHA256(), valuehash.RandomSHA256()
	w.avp32 = w.c.MajorityACCEPT(base.RawPoint(32, 0), w.p32, w.B32)

	return w
}

// sign makes a ballot sign fact and records it in the history. addr/priv may
// be a member's own (then it is that member's vote), a member's address with a
// foreign key, or a foreign node.
func (w *agWorld) sign(addr base.Address, priv base.Privatekey, fact base.BallotFact) base.BallotSignFact {
	var sf base.BallotSignFact

	switch t := fact.(type) {
	case isaac.INITBallotFact:
		s := isaac.NewINITBallotSignFact(t)
		if err := s.NodeSign(priv, common.NetworkID, addr); err != nil {
			panic(err)
		}

		sf = s
	case isaac.SuffrageConfirmBallotFact:
		s := isaac.NewINITBallotSignFact(t)
		if err := s.NodeSign(priv, common.NetworkID, addr); err != nil {
			panic(err)
		}

		sf = s
	case isaac.ACCEPTBallotFact:
		s := isaac.NewACCEPTBallotSignFact(t)
		if err := s.NodeSign(priv, common.NetworkID, addr); err != nil {
			panic(err)
		}

		sf = s
	default:
		panic(fmt.Sprintf("unknown fact %T", fact))
	}

	w.note(sf)

	return sf
}

// note records a ballot sign fact that exists in the world.
func (w *agWorld) note(sf base.BallotSignFact) {
	fact := sf.Fact().(base.BallotFact) //nolint:forcetypeassert //...
	ck := classKey(fact.Point(), fact)
	fh := fact.Hash().String()

	w.facts[fh] = fact

	if w.sfs[ck] == nil {
		w.sfs[ck] = map[string][]base.BallotSignFact{}
	}

	for _, o := range w.sfs[ck][fh] {
		if string(o.HashBytes()) == string(sf.HashBytes()) {
			return
		}
	}

	w.sfs[ck][fh] = append(w.sfs[ck][fh], sf)

	if i, ok := w.idx[sf.Node().String()]; ok && w.c.Nodes[i].Publickey().Equal(sf.Signer()) {
		if w.signed[ck] == nil {
			w.signed[ck] = map[int]map[string]bool{}
		}

		if w.signed[ck][i] == nil {
			w.signed[ck][i] = map[string]bool{}
		}

		w.signed[ck][i][fh] = true
	}
}

// checkPrecondition: at most f members signed two different facts of one class and stage point.
func (w *agWorld) checkPrecondition() {
	for ck, m := range w.signed {
		eq := 0

		for i, fs := range m {
			if len(fs) > 1 {
				eq++

				if !w.byz[i] {
					panic(fmt.Sprintf("harness: honest node%d signed %d facts for %s", i, len(fs), ck))
				}
			}
		}

		if eq > w.f {
			panic(fmt.Sprintf("harness: %d equivocators for %s, f=%d", eq, ck, w.f))
		}
	}
}

// ---- the rules of the property, evaluated on a voteproof object ----

func (w *agWorld) ruleOf(vp base.Voteproof) string {
	sfs := vp.SignFacts()
	if len(sfs) < 1 {
		return "no-sign-facts"
	}

	var expels []base.SuffrageExpelOperation
	if h, ok := vp.(base.HasExpels); ok {
		expels = h.Expels()
	}

	expelled := map[int]bool{}

	for _, op := range expels {
		if op.IsValid(common.NetworkID) != nil { // signatures of the operation (trusted primitive)
			return "expel-operation-invalid"
		}

		fact := op.ExpelFact()

		t, ok := w.idx[fact.Node().String()]
		switch {
		case !ok:
			return "expel-target-not-member"
		case expelled[t]:
			return "expel-target-twice"
		case vp.Point().Height() > fact.ExpelEnd():
			return "expel-expired"
		}

		expelled[t] = true
	}

	k := len(expelled)

	need := w.q
	if k > 0 && w.n-k < need {
		need = w.n - k
	}

	for _, op := range expels {
		signers := map[int]bool{}

		for _, s := range op.NodeSigns() {
			i, ok := w.idx[s.Node().String()]
			if !ok || !w.c.Nodes[i].Publickey().Equal(s.Signer()) {
				return "expel-signer-not-member"
			}

			signers[i] = true
		}

		if len(signers) < need {
			return "expel-signers-under-threshold"
		}
	}

	voters := map[int]bool{}
	votes := map[string]int{}

	for _, sf := range sfs {
		fact, ok := sf.Fact().(base.BallotFact)
		if !ok {
			return "sign-fact-invalid"
		}

		if sf.IsValid(common.NetworkID) != nil { // signature (trusted primitive)
			return "sign-fact-invalid"
		}

		if !fact.Point().Equal(vp.Point()) {
			return "sign-fact-other-point"
		}

		i, ok := w.idx[sf.Node().String()]

		switch {
		case !ok:
			return "voter-not-member"
		case !w.c.Nodes[i].Publickey().Equal(sf.Signer()):
			return "voter-wrong-key"
		case voters[i]:
			return "voter-twice"
		case expelled[i]:
			return "expelled-node-voted"
		}

		voters[i] = true
		votes[fact.Hash().String()]++
	}

	if vp.Result() != base.VoteResultMajority {
		return ""
	}

	if vp.Majority() == nil {
		return "majority-missing"
	}

	if _, ok := vp.(base.StuckVoteproof); ok {
		return "stuck-voteproof-claims-majority"
	}

	if ef, ok := vp.Majority().(isaac.ExpelBallotFact); ok && len(ef.ExpelFacts()) > 0 && len(expels) > 0 {
		hs := ef.ExpelFacts()
		if len(hs) != len(expels) {
			return "expel-facts-mismatch"
		}

		for i := range hs {
			if !hs[i].Equal(expels[i].ExpelFact().Hash()) {
				return "expel-facts-mismatch"
			}
		}
	}

	required := w.q
	if k > 0 {
		required = w.n - k // the remaining suffrage votes at 100%
	}

	if votes[vp.Majority().Hash().String()] < required {
		return "majority-under-threshold"
	}

	return ""
}

// offer validates a voteproof the way a receiving node does and keeps it when accepted.
func (w *agWorld) offer(vp base.Voteproof, origin, desc string) bool {
	w.r.Checked()

	if err := vp.IsValid(common.NetworkID); err != nil {
		w.r.Probe("rejected_by_isvalid")

		return false
	}

	if err := isaac.IsValidVoteproofWithSuffrage(vp, w.c.Suf); err != nil {
		w.r.Probe("rejected_by_suffrage_check")

		return false
	}

	a := &agVP{vp: vp, origin: origin, desc: desc, rule: w.ruleOf(vp)}
	if h, ok := vp.(base.HasExpels); ok && len(h.Expels()) > 0 {
		a.expels = true
	}

	switch {
	case vp.Result() != base.VoteResultMajority:
		w.r.Probe("accepted_without_majority")
	case a.expels:
		w.r.Probe("accepted_majority_with_expels")
	default:
		w.r.Probe("accepted_majority_plain")
	}

	w.accepted = append(w.accepted, a)
	w.r.Event(fmt.Sprintf("accepted (%s): %s", origin, w.describeAny(a)))
	w.judge(a)

	return true
}

func (w *agWorld) judge(a *agVP) {
	if a.vp.Result() != base.VoteResultMajority || a.vp.Majority() == nil {
		return
	}

	ck := classKey(a.vp.Point(), a.vp.Majority())

	for _, b := range w.accepted {
		if b == a || b.vp.Result() != base.VoteResultMajority || b.vp.Majority() == nil {
			continue
		}

		if classKey(b.vp.Point(), b.vp.Majority()) != ck || b.vp.Majority().Hash().Equal(a.vp.Majority().Hash()) {
			continue
		}

		// two accepted voteproofs of one stage point with different majorities
		w.checkPrecondition()

		var sig string

		switch {
		case a.rule != "":
			sig = "accepted-invalid:" + a.rule
		case b.rule != "":
			sig = "accepted-invalid:" + b.rule
		case a.expels || b.expels:
			sig = "well-formed:with-expels"
		default:
			sig = "well-formed:plain"
		}

		if strings.HasPrefix(a.origin, "node") && strings.HasPrefix(b.origin, "node") {
			w.r.Probe("conflict_between_voteproofs_built_by_honest_nodes")
		}

		if w.reported[sig] {
			continue
		}

		w.reported[sig] = true

		w.r.Fail("conflicting-majorities", sig,
			"suffrage of %d, threshold %v (required %d, tolerated equivocators %d, equivocators in this run %v): two voteproofs accepted by IsValid and IsValidVoteproofWithSuffrage for %s carry different majority facts:\n  A (%s): %s\n  B (%s): %s",
			w.n, w.th, w.q, w.f, w.byzList(), ck, a.origin, w.describe(a), b.origin, w.describe(b))
	}
}

func sortedKeys[V any](m map[string]V) []string {
	ks := make([]string, 0, len(m))
	for k := range m {
		ks = append(ks, k)
	}

	sort.Strings(ks)

	return ks
}

func (w *agWorld) byzList() []int {
	var l []int
	for i := range w.byz {
		l = append(l, i)
	}

	sort.Ints(l)

	return l
}

func (w *agWorld) name(a base.Address) string {
	if i, ok := w.idx[a.String()]; ok {
		return fmt.Sprintf("n%d", i)
	}

	return a.String()
}

func (w *agWorld) describeAny(a *agVP) string {
	if a.vp.Majority() == nil {
		return fmt.Sprintf("%T %s without majority, %d sign facts", a.vp, a.vp.Point(), len(a.vp.SignFacts()))
	}

	return w.describe(a)
}

func (w *agWorld) describe(a *agVP) string {
	var voters []string

	for _, sf := range a.vp.SignFacts() {
		fact := sf.Fact().(base.BallotFact) //nolint:forcetypeassert //...
		voters = append(voters, fmt.Sprintf("%s->%.6s", w.name(sf.Node()), fact.Hash()))
	}

	sort.Strings(voters) // the ballotbox lists sign facts in map order

	s := fmt.Sprintf("%T majority=%.6s voters=[%s]", a.vp, a.vp.Majority().Hash(), strings.Join(voters, " "))

	if h, ok := a.vp.(base.HasExpels); ok {
		for _, op := range h.Expels() {
			var ss []string
			for _, x := range op.NodeSigns() {
				ss = append(ss, w.name(x.Node()))
			}

			sort.Strings(ss)

			s += fmt.Sprintf(" expel(%s signed by %s)", w.name(op.ExpelFact().Node()), strings.Join(ss, ","))
		}
	}

	if a.rule != "" {
		s += " BREAKS RULE " + a.rule
	}

	return s
}

// ---- facts ----

func (w *agWorld) newFact(sp base.StagePoint, expels []base.SuffrageExpelOperation) base.BallotFact {
	var ef []util.Hash
	if len(expels) > 0 {
		ef = common.ExpelFactHashes(expels)
	}

	if sp.Stage() == base.StageINIT {
		return isaac.NewINITBallotFact(sp.Point, w.B32, valuehash.RandomSHA256(), ef)
	}

	return isaac.NewACCEPTBallotFact(sp.Point, w.p32, valuehash.RandomSHA256(), ef)
}

// expelOp: an expel of target signed by the given nodes (members by index, or foreign nodes with index >= 100).
func (w *agWorld) expelOp(target base.Address, start, end base.Height, signers []int) isaac.SuffrageExpelOperation {
	var ls []base.LocalNode

	for _, s := range signers {
		if s >= 100 {
			ls = append(ls, w.foreign[(s-100)%len(w.foreign)])
		} else {
			ls = append(ls, w.c.Nodes[s])
		}
	}

	return w.c.Expel(target, start, end, ls)
}

func sortExpels(ops []base.SuffrageExpelOperation) {
	sort.SliceStable(ops, func(i, j int) bool {
		return strings.Compare(ops[i].ExpelFact().Hash().String(), ops[j].ExpelFact().Hash().String()) < 0
	})
}

func (w *agWorld) build(sp base.StagePoint, sfs []base.BallotSignFact, majority base.BallotFact, expels []base.SuffrageExpelOperation) base.Voteproof {
	switch {
	case sp.Stage() == base.StageINIT && len(expels) > 0:
		vp := isaac.NewINITExpelVoteproof(sp.Point)
		vp.SetSignFacts(sfs).SetMajority(majority).SetThreshold(w.th)
		vp.SetExpels(expels)
		vp.Finish()

		return vp
	case sp.Stage() == base.StageINIT:
		vp := isaac.NewINITVoteproof(sp.Point)
		vp.SetSignFacts(sfs).SetMajority(majority).SetThreshold(w.th)
		vp.Finish()

		return vp
	case len(expels) > 0:
		vp := isaac.NewACCEPTExpelVoteproof(sp.Point)
		vp.SetSignFacts(sfs).SetMajority(majority).SetThreshold(w.th)
		vp.SetExpels(expels)
		vp.Finish()

		return vp
	default:
		vp := isaac.NewACCEPTVoteproof(sp.Point)
		vp.SetSignFacts(sfs).SetMajority(majority).SetThreshold(w.th)
		vp.Finish()

		return vp
	}
}

func otherStageOf(sp base.StagePoint) base.StagePoint {
	if sp.Stage() == base.StageINIT {
		return base.NewStagePoint(sp.Point, base.StageACCEPT)
	}

	return base.NewStagePoint(sp.Point, base.StageINIT)
}

// ---- the assembler ----

// assemble draws candidate voteproofs for one stage point from the history.
func (w *agWorld) assemble(sp base.StagePoint, ck string, k int) {
	r := w.r

	var fhs []string
	for fh := range w.sfs[ck] {
		fhs = append(fhs, fh)
	}

	sort.Strings(fhs)

	if len(fhs) == 0 {
		return
	}

	for c := 0; c < k; c++ {
		fh := fhs[r.Choose(len(fhs))]
		M := w.facts[fh]

		// the member votes that exist for M (one per member and key)
		var pool []base.BallotSignFact

		pool = append(pool, w.sfs[ck][fh]...)

		var sfs []base.BallotSignFact

		voters := map[int]bool{}

		switch r.Choose(4) {
		case 0: // a subset
			for _, sf := range pool {
				if r.Chance(2, 3) {
					sfs = append(sfs, sf)
				}
			}
		default: // all of them
			sfs = append(sfs, pool...)
		}

		var spice []string

		if osp := otherStageOf(sp); r.Chance(1, 10) {
			// made entirely of the votes of the other stage of this height and round: majority and sign facts agree with
			// each other and have the numbers, only their stage is not the voteproof's
			ock := classKey(osp, nil)

			if ofhs := sortedKeys(w.sfs[ock]); len(ofhs) > 0 {
				ofh := ofhs[r.Choose(len(ofhs))]
				M = w.facts[ofh]
				sfs = append([]base.BallotSignFact(nil), w.sfs[ock][ofh]...)
				spice = append(spice, "majority and votes of the other stage of this point")
				r.Probe("candidate_made_of_other_stage")
			}
		}

		if r.Chance(1, 12) && len(sfs) > 0 {
			sfs = append(sfs, sfs[r.Choose(len(sfs))])
			spice = append(spice, "a vote twice")
		}

		if r.Chance(1, 12) {
			for x := 0; x <= r.Choose(w.n); x++ {
				fn := w.foreign[x%len(w.foreign)]
				sfs = append(sfs, w.sign(fn.Address(), fn.Privatekey(), M))
			}

			spice = append(spice, "votes of nodes outside the suffrage")
		}

		if r.Chance(1, 12) {
			for x := 0; x <= r.Choose(w.n); x++ {
				m := w.c.Nodes[r.Choose(w.n)]
				sfs = append(sfs, w.sign(m.Address(), w.foreign[0].Privatekey(), M))
			}

			spice = append(spice, "votes in a member's name with another key")
		}

		if r.Chance(1, 12) {
			// votes of another stage point
			for _, ock := range sortedKeys(w.sfs) {
				if ock == ck {
					continue
				}

				for _, ofh := range sortedKeys(w.sfs[ock]) {
					sfs = append(sfs, w.sfs[ock][ofh]...)
				}

				break
			}

			spice = append(spice, "votes of another stage point")
		}

		if r.Chance(1, 10) && len(fhs) > 1 {
			// add the votes for another fact, keep M as the claimed majority
			o := fhs[r.Choose(len(fhs))]
			if o != fh {
				sfs = append(sfs, w.sfs[ck][o]...)
				spice = append(spice, "votes for another fact beside the claimed majority")
			}
		}

		for _, sf := range sfs {
			if i, ok := w.idx[sf.Node().String()]; ok {
				voters[i] = true
			}
		}

		// expels
		var expels []base.SuffrageExpelOperation

		var targets []int

		mode := r.Choose(4)

		if ef, ok := M.(isaac.ExpelBallotFact); ok && len(ef.ExpelFacts()) > 0 && r.Chance(4, 5) {
			mode = 9 // the expels the fact lists
		}

		switch mode {
		case 0: // none
		case 1, 2: // everyone who did not vote
			for i := 0; i < w.n; i++ {
				if !voters[i] {
					targets = append(targets, i)
				}
			}
		case 3:
			for i := 0; i < w.n; i++ {
				if r.Chance(1, 3) {
					targets = append(targets, i)
				}
			}
		}

		if mode == 9 {
			expels = append(expels, w.listed[M.Hash().String()]...)
		}

		for _, t := range targets {
			start, end := w.H, w.H

			switch r.Choose(10) {
			case 0:
				start, end = w.H-2, w.H-1 // expired
				spice = append(spice, "expired expel")
			case 1:
				start, end = w.H-1, w.H+2
			}

			var signers []int

			switch r.Choose(6) {
			case 0, 1: // the voters
				for i := 0; i < w.n; i++ {
					if voters[i] && i != t {
						signers = append(signers, i)
					}
				}
			case 2: // every other member
				for i := 0; i < w.n; i++ {
					if i != t {
						signers = append(signers, i)
					}
				}
			case 3: // any members (maybe too few, maybe expelled ones)
				for i := 0; i < w.n; i++ {
					if i != t && r.Chance(1, 2) {
						signers = append(signers, i)
					}
				}
			case 4: // the other expelled nodes
				for _, o := range targets {
					if o != t {
						signers = append(signers, o)
					}
				}
			default: // foreign signers too
				for i := 0; i < w.n; i++ {
					if i != t && r.Chance(1, 2) {
						signers = append(signers, i)
					}
				}

				for x := 0; x <= r.Choose(w.n); x++ {
					signers = append(signers, 100+x)
				}

				spice = append(spice, "expel signed by nodes outside the suffrage")
			}

			if len(signers) == 0 {
				continue
			}

			target := w.c.Nodes[t].Address()
			if r.Chance(1, 20) {
				target = w.foreign[1].Address()
				spice = append(spice, "expel of a node outside the suffrage")
			}

			expels = append(expels, w.expelOp(target, start, end, signers))
		}

		if len(sfs) == 0 {
			continue
		}

		if mode != 9 {
			sortExpels(expels)
		}

		vp := w.build(sp, sfs, M, expels)

		// a stuck voteproof is what the resolver builds when a stage point cannot be decided: it decides nothing.
		// A crafted one claims a majority all the same (the constructor's Finish clears it; the claim is set afterwards)
		if len(expels) > 0 && r.Chance(1, 6) {
			if sp.Stage() == base.StageINIT {
				svp := isaac.NewINITStuckVoteproof(sp.Point)
				svp.SetSignFacts(sfs)
				svp.SetExpels(expels)
				svp.Finish()
				svp.SetMajority(M)
				vp = svp
			} else {
				svp := isaac.NewACCEPTStuckVoteproof(sp.Point)
				svp.SetSignFacts(sfs)
				svp.SetExpels(expels)
				svp.Finish()
				svp.SetMajority(M)
				vp = svp
			}

			spice = append(spice, "a stuck voteproof that claims a majority")
			r.Probe("assembled_stuck_with_majority")
		}

		if w.offer(vp, "assembled", strings.Join(spice, "; ")) {
			r.Probe("assembled_accepted")
		}
	}
}

// ---- the run ----

// scenario: a history without the simulation: every honest member signs one
// fact, equivocators sign all of them.
func (w *agWorld) scenario(sp base.StagePoint) {
	r := w.r

	group := make([]int, w.n)
	for i := range group {
		group[i] = r.Choose(2)
	}

	// expels of the other group, signed by the own group and the equivocators: what a partition produces
	mkExpels := func(g int) []base.SuffrageExpelOperation {
		var signers []int

		for i := 0; i < w.n; i++ {
			if group[i] == g || w.byz[i] {
				signers = append(signers, i)
			}
		}

		var ops []base.SuffrageExpelOperation

		for i := 0; i < w.n; i++ {
			if group[i] != g && !w.byz[i] && len(signers) > 0 {
				var ss []int

				for _, s := range signers {
					if s != i {
						ss = append(ss, s)
					}
				}

				if len(ss) > 0 {
					ops = append(ops, w.expelOp(w.c.Nodes[i].Address(), w.H, w.H, ss))
				}
			}
		}

		sortExpels(ops)

		return ops
	}

	X, Y := w.newFact(sp, nil), w.newFact(sp, nil)
	E0, E1 := mkExpels(0), mkExpels(1)
	XE, YE := w.newFact(sp, E0), w.newFact(sp, E1)

	w.listed[XE.Hash().String()] = E0
	w.listed[YE.Hash().String()] = E1

	pattern := r.Draw("pattern", 0, 3)

	honest := 0

	for i := 0; i < w.n; i++ {
		if !w.byz[i] {
			honest++
		}
	}

	ny := 0

	for i, nd := range w.c.Nodes {
		if w.byz[i] {
			for _, f := range []base.BallotFact{X, Y, XE, YE} {
				w.sign(nd.Address(), nd.Privatekey(), f)
			}

			continue
		}

		var f base.BallotFact

		switch pattern {
		case 0: // an honest majority for Y where possible
			f = X
			if ny < w.q || r.Chance(1, 2) {
				f = Y
				ny++
			}
		case 1:
			f = []base.BallotFact{X, Y}[group[i]]
		case 2:
			f = []base.BallotFact{XE, YE}[group[i]]
		default:
			f = []base.BallotFact{X, YE}[group[i]]
		}

		w.sign(nd.Address(), nd.Privatekey(), f)
	}
}

func c03Run(r *simkit.Run) {
	w := agBuildWorld(r)
	w.listed = map[string][]base.SuffrageExpelOperation{}

	k := 30
	if r.Tier == "thorough" {
		k = 120
	}

	if r.Draw("simulated_nodes", 0, 1) == 1 && w.n >= 2 {
		sp1, sp2 := agSim(r, w)

		w.checkPrecondition()

		for _, sp := range []base.StagePoint{sp1, sp2} {
			for _, ck := range sortedKeys(w.sfs) {
				if len(ck) >= len(sp.String()) && ck[:len(sp.String())] == sp.String() {
					w.assemble(sp, ck, k/2)
				}
			}
		}

		return
	}

	stage := base.StageINIT
	if r.Flag("accept_stage") {
		stage = base.StageACCEPT
	}

	sp := base.NewStagePoint(base.NewPoint(w.H, base.Round(r.Choose(2))), stage)

	w.scenario(sp)

	if r.Flag("other_stage_voted") {
		// the other stage of the same height and round has votes too (a height passes through both)
		Z := w.newFact(otherStageOf(sp), nil)

		for _, nd := range w.c.Nodes {
			w.sign(nd.Address(), nd.Privatekey(), Z)
		}
	}

	w.checkPrecondition()
	w.assemble(sp, classKey(sp, nil), k)
}

func init() {
	simkit.Register(&simkit.Harness{
		ID:          "C03",
		Run:         c03Run,
		Real:        []string{"isaac voteproof types and constructors", "Voteproof.IsValid", "isaac.IsValidVoteproofWithSuffrage / base.IsValidVoteproofWithSuffrage", "isaac.NewSuffrageWithExpels", "isaac.IsValidExpelWithSuffrage", "isaacstates.Ballotbox (one per honest node)", "isaac.SuffrageVoting on isaacdatabase.TempPool (memory leveldb)", "isaacstates.DefaultBallotStuckResolver with FindMissingBallotsFromBallotboxFunc and VoteSuffrageVotingFunc", "secp256k1 signatures"},
		Stub:        []string{"network (partition groups, loss, delay, duplication, heal; missing-ballot requests answered from what a peer has seen)", "consensus handler (the harness signs each honest node's single ballot per stage point and the next-round INIT ballot with the expels SuffrageVoting.Find returns)", "equivocating nodes (harness)"},
		Rule:        "each run draws a suffrage of 1-7 nodes, a threshold in {67,67.5,70,75,80,90,100}, at most f=floor(n-n*t/100) equivocators. Half of the runs simulate one height: every honest node runs a real Ballotbox, SuffrageVoting and stuck resolver over a network with 1-3 partition groups, loss, delay, duplication and optional heal; equivocators send different facts to different groups and co-sign every expel. The other half builds a history directly (honest nodes sign one of four facts, with or without listed expels). In both, an assembler then builds 30 (thorough 120) candidate voteproofs from the sign facts of the history and expel operations signed by any nodes, including ill-formed ones (duplicate, foreign and wrong-key voters, votes of other points, majority and votes taken wholly from the other stage of the same height and round, expired expels, foreign expel signers and targets, too few signers). Every voteproof that passes Voteproof.IsValid and IsValidVoteproofWithSuffrage enters the pool; any two of one stage point with different majority facts are a violation. distinct = event-log hash",
		Assumptions: []string{"honest nodes sign one ballot fact per stage point and class (plain / suffrage-confirm); any suffrage node may sign any expel", "signature verification of sign facts and expel operations is a trusted primitive of the rule classifier"},
	})
}
