package agreeh

import (
	"testing"

	"github.com/spikeekips/mitum/simkit"
)

func TestWorker(t *testing.T) { simkit.WorkerMain(t) }
