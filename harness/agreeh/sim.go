package agreeh

import (
	"context"
	"fmt"
	"runtime"
	"time"

	"github.com/spikeekips/mitum/base"
	"github.com/spikeekips/mitum/isaac"
	isaacdatabase "github.com/spikeekips/mitum/isaac/database"
	isaacstates "github.com/spikeekips/mitum/isaac/states"
	"github.com/spikeekips/mitum/simkit"
	leveldbstorage "github.com/spikeekips/mitum/storage/leveldb"
	"github.com/spikeekips/mitum/util"
	"github.com/spikeekips/mitum/util/valuehash"
	"github.com/spikeekips/mitum/vh/common"
)

// ---- the multi-node simulation: what honest components build ----

type simNode struct {
	i        int
	local    base.LocalNode
	box      *isaacstates.Ballotbox
	sv       *isaac.SuffrageVoting
	resolver *isaacstates.DefaultBallotStuckResolver
	known    []base.Ballot // ballots this node has seen (its own and delivered ones)
	done     bool
	stuckFor map[string]bool
}

type simNet struct {
	w      *agWorld
	r      *simkit.Run
	nodes  []*simNode // nil for equivocators (the harness acts for them)
	group  []int
	healed bool
	loss   int // 1/loss of the messages is lost (0: none)
}

func (nt *simNet) reach(a, b int) bool {
	if a == b {
		return false
	}

	return nt.healed || nt.group[a] == nt.group[b] || nt.w.byz[a] || nt.w.byz[b]
}

func (nt *simNet) lost() bool {
	if nt.loss > 0 && nt.r.Chance(1, nt.loss) {
		nt.r.Fault("message_lost")

		return true
	}

	return false
}

func (nt *simNet) delay() time.Duration {
	return time.Duration(1+nt.r.Choose(80)) * time.Millisecond
}

// deliverBallot is the ingress of a node, as launch wires it.
func (nt *simNet) deliverBallot(to int, bl base.Ballot) {
	nd := nt.nodes[to]
	if nd == nil {
		return
	}

	if err := bl.IsValid(common.NetworkID); err != nil {
		return
	}

	nd.known = append(nd.known, bl)

	nt.r.Guard("vote", func() { _, _ = nd.box.Vote(bl) })
}

func (nt *simNet) sendBallot(from int, bl base.Ballot, to int) {
	if !nt.reach(from, to) {
		nt.r.Fault("partitioned_ballot")

		return
	}

	if nt.lost() {
		return
	}

	d := nt.delay()

	nt.r.Go(fmt.Sprintf("ballot %d->%d", from, to), func() {
		nt.r.Sleep(d)
		nt.deliverBallot(to, bl)
	})

	if nt.r.Chance(1, 15) {
		nt.r.Fault("message_duplicated")

		d2 := nt.delay() * 3

		nt.r.Go(fmt.Sprintf("ballot-dup %d->%d", from, to), func() {
			nt.r.Sleep(d2)
			nt.deliverBallot(to, bl)
		})
	}
}

func (nt *simNet) broadcastBallot(from int, bl base.Ballot) {
	for to := 0; to < nt.w.n; to++ {
		if to != from {
			nt.sendBallot(from, bl, to)
		}
	}
}

// deliverExpel: the ingress of an expel operation (launch.PSuffrageVoting).
func (nt *simNet) deliverExpel(to int, op base.SuffrageExpelOperation) {
	w := nt.w

	if w.byz[to] {
		// an equivocator co-signs whatever expel it sees and sends it on
		var signer base.NodeSigner
		if err := util.ReflectPtrSetInterfaceValue(op, &signer); err != nil {
			return
		}

		for _, s := range op.NodeSigns() {
			if s.Node().Equal(w.c.Nodes[to].Address()) {
				return
			}
		}

		if op.ExpelFact().Node().Equal(w.c.Nodes[to].Address()) {
			return
		}

		if err := signer.NodeSign(w.c.Nodes[to].Privatekey(), common.NetworkID, w.c.Nodes[to].Address()); err != nil {
			return
		}

		nt.r.Probe("equivocator_cosigned_expel")
		nt.broadcastExpel(to, signer.(base.SuffrageExpelOperation)) //nolint:forcetypeassert //...

		return
	}

	nd := nt.nodes[to]
	if nd == nil {
		return
	}

	if err := op.IsValid(common.NetworkID); err != nil {
		return
	}

	if err := isaac.IsValidExpelWithSuffrageLifespan(w.H-1, op, w.c.Suf, isaac.DefaultNetworkPolicy().SuffrageExpelLifespan()); err != nil {
		return
	}

	nt.r.Guard("suffrage-vote", func() { _, _ = nd.sv.Vote(op) })
}

func (nt *simNet) broadcastExpel(from int, op base.SuffrageExpelOperation) {
	for to := 0; to < nt.w.n; to++ {
		if to == from || !nt.reach(from, to) || nt.lost() {
			continue
		}

		to := to
		d := nt.delay()

		nt.r.Go(fmt.Sprintf("expel %d->%d", from, to), func() {
			nt.r.Sleep(d)
			nt.deliverExpel(to, op)
		})
	}
}

// requestMissing: ask the reachable peers for the ballots of nodes.
func (nt *simNet) requestMissing(from int, point base.StagePoint, nodes []base.Address) {
	for p := 0; p < nt.w.n; p++ {
		if p == from || !nt.reach(from, p) || nt.nodes[p] == nil || nt.lost() {
			continue
		}

		for _, bl := range nt.nodes[p].known {
			if !bl.Point().Equal(point) {
				continue
			}

			for _, a := range nodes {
				if bl.SignFact().Node().Equal(a) {
					nt.sendBallot(p, bl, from)
				}
			}
		}
	}
}

func (nt *simNet) newNode(i int, ctx context.Context) *simNode {
	w, r := nt.w, nt.r
	encs, enc := common.Encs()

	nd := &simNode{i: i, local: w.c.Nodes[i], stuckFor: map[string]bool{}}

	getSuffrage := func(base.Height) (base.Suffrage, bool, error) { return w.c.Suf, true, nil }

	st := leveldbstorage.NewMemStorage()

	r.OnEnd(func() { _ = st.Close() })

	pool, err := isaacdatabase.NewTempPool(st, encs, enc, 0)
	if err != nil {
		panic(err)
	}

	nd.sv = isaac.NewSuffrageVoting(nd.local.Address(), pool,
		func(util.Hash) (bool, error) { return false, nil },
		func(op base.SuffrageExpelOperation) error {
			nt.broadcastExpel(i, op)

			return nil
		},
	)

	nd.box = isaacstates.NewBallotbox(nd.local.Address(), func() base.Threshold { return w.th }, getSuffrage)
	nd.box.SetInterval(200 * time.Millisecond)
	nd.box.SetCountAfter(300 * time.Millisecond)
	nd.box.SetSuffrageVoteFunc(func(op base.SuffrageExpelOperation) error {
		_, err := nd.sv.Vote(op)

		return err
	})

	if err := nd.box.Start(ctx); err != nil {
		panic(err)
	}

	nd.resolver = isaacstates.NewDefaultBallotStuckResolver(
		time.Duration(200+r.Choose(400))*time.Millisecond+131*time.Microsecond,
		time.Duration(100+r.Choose(200))*time.Millisecond,
		// never at the same instant as a tick: a select with two ready channels is decided by the Go runtime, not by the tape
		time.Duration(200+r.Choose(600))*time.Millisecond+377*time.Microsecond,
		isaacstates.FindMissingBallotsFromBallotboxFunc(nd.local.Address(), getSuffrage, nd.box),
		func(_ context.Context, point base.StagePoint, nodes []base.Address) error {
			nt.requestMissing(i, point, nodes)

			return nil
		},
		isaacstates.VoteSuffrageVotingFunc(nd.local, common.NetworkID, nd.box, nd.sv, getSuffrage),
	)

	return nd
}

// agSim runs one height of n nodes: ballots for the first stage point, stuck
// resolution with expels where a partition keeps the majority away, and the
// INIT ballots of the next round the way the consensus handler builds them.
func agSim(r *simkit.Run, w *agWorld) (sp1, sp2 base.StagePoint) {
	// the ballotbox recycles records through a sync.Pool (see C04)
	runtime.GC()
	runtime.GC()

	ctx, cancel := context.WithCancel(context.Background())
	r.OnEnd(cancel)

	r.OnSUTPanic(func(site, value, stack string) { r.Probe("component_panicked") })

	stage := base.StageINIT
	if r.Flag("accept_stage") {
		stage = base.StageACCEPT
	}

	p0 := base.NewPoint(w.H, 0)
	p1 := base.NewPoint(w.H, 1)
	sp1 = base.NewStagePoint(p0, stage)
	sp2 = base.NewStagePoint(p1, base.StageINIT)

	nt := &simNet{w: w, r: r, nodes: make([]*simNode, w.n), group: make([]int, w.n)}

	ngroups := 1 + r.Draw("partition_groups", 0, 2)
	for i := range nt.group {
		nt.group[i] = r.Choose(ngroups)
	}

	if r.Chance(1, 3) {
		nt.loss = 4 + r.Choose(12)
	}

	healAt := time.Duration(0)
	if ngroups > 1 && r.Chance(1, 3) {
		healAt = time.Duration(300+r.Choose(3000)) * time.Millisecond
	}

	for i := 0; i < w.n; i++ {
		if !w.byz[i] {
			nt.nodes[i] = nt.newNode(i, ctx)
		}
	}

	// candidate facts of the first stage point: per group, mostly the same
	pa := valuehash.RandomSHA256()
	ivp33 := w.c.MajorityINIT(p0, isaac.NewINITBallotFact(p0, w.B32, pa, nil))

	mkFact := func() base.BallotFact {
		if stage == base.StageINIT {
			return isaac.NewINITBallotFact(p0, w.B32, valuehash.RandomSHA256(), nil)
		}

		return isaac.NewACCEPTBallotFact(p0, pa, valuehash.RandomSHA256(), nil)
	}

	facts := []base.BallotFact{mkFact(), mkFact(), mkFact()}
	groupFact := make([]int, ngroups)

	for g := range groupFact {
		if r.Chance(1, 2) {
			groupFact[g] = r.Choose(len(facts))
		}
	}

	mkBallot := func(i int, fact base.BallotFact) base.Ballot {
		nd := w.c.Nodes[i]
		sf := w.sign(nd.Address(), nd.Privatekey(), fact)

		var bl base.Ballot

		if stage == base.StageINIT {
			bl = isaac.NewINITBallot(w.avp32, sf.(isaac.INITBallotSignFact), nil) //nolint:forcetypeassert //...
		} else {
			bl = isaac.NewACCEPTBallot(ivp33, sf.(isaac.ACCEPTBallotSignFact), nil) //nolint:forcetypeassert //...
		}

		if err := bl.IsValid(common.NetworkID); err != nil {
			panic(fmt.Sprintf("harness built an invalid ballot: %+v", err))
		}

		return bl
	}

	proposal2 := valuehash.RandomSHA256() // the proposal of round 1 (one proposer, one proposal)

	// the handler's next-round INIT ballot after a stuck voteproof
	nextRound := func(nd *simNode, svp base.Voteproof) {
		var expels []base.SuffrageExpelOperation

		r.Guard("find", func() { expels, _ = nd.sv.Find(ctx, w.H, w.c.Suf) })

		var ef []util.Hash
		if len(expels) > 0 {
			ef = common.ExpelFactHashes(expels)
		}

		fact := isaac.NewINITBallotFact(p1, w.B32, proposal2, ef)
		sf := w.sign(nd.local.Address(), nd.local.Privatekey(), fact)
		bl := isaac.NewINITBallot(svp, sf.(isaac.INITBallotSignFact), expels) //nolint:forcetypeassert //...

		if err := bl.IsValid(common.NetworkID); err != nil {
			panic(fmt.Sprintf("harness built an invalid next-round ballot: %+v", err))
		}

		if len(expels) > 0 {
			r.Probe("next_round_ballot_with_expels")
			w.listed[fact.Hash().String()] = expels
		}

		r.Event(fmt.Sprintf("node%d: next round ballot %.6s with %d expels", nd.i, fact.Hash(), len(expels)))

		nd.known = append(nd.known, bl)
		r.Guard("vote", func() { _, _ = nd.box.Vote(bl) })
		nd.resolver.NewPoint(ctx, bl.Point())
		nt.broadcastBallot(nd.i, bl)

		// an equivocator votes for every next-round fact it sees
		for _, b := range w.byzList() {
			if !nt.reach(nd.i, b) {
				continue
			}

			bn := w.c.Nodes[b]
			bsf := w.sign(bn.Address(), bn.Privatekey(), fact)
			bbl := isaac.NewINITBallot(svp, bsf.(isaac.INITBallotSignFact), expels) //nolint:forcetypeassert //...

			if bbl.IsValid(common.NetworkID) == nil {
				nt.broadcastBallot(b, bbl)
			}
		}
	}

	deadline := time.Duration(6+r.Choose(6)) * time.Second

	for i := 0; i < w.n; i++ {
		i := i

		if w.byz[i] {
			// an equivocator sends one fact to some nodes and another to the others
			a, b := mkBallot(i, facts[0]), mkBallot(i, facts[1+r.Choose(2)])

			for to := 0; to < w.n; to++ {
				if to == i {
					continue
				}

				if nt.group[to] == 0 {
					nt.sendBallot(i, a, to)
				} else {
					nt.sendBallot(i, b, to)
				}
			}

			continue
		}

		nd := nt.nodes[i]

		r.Go(fmt.Sprintf("node%d", i), func() {
			r.Sleep(time.Duration(r.Choose(100)) * time.Millisecond)

			fi := groupFact[nt.group[i]]
			if r.Chance(1, 10) {
				fi = r.Choose(len(facts)) // honest nodes may differ (timeouts)
			}

			bl := mkBallot(i, facts[fi])
			nd.known = append(nd.known, bl)

			r.Guard("vote", func() { _, _ = nd.box.Vote(bl) })
			nd.resolver.NewPoint(ctx, bl.Point())
			nt.broadcastBallot(i, bl)

			for r.Now() < deadline && !nd.done {
				r.Sleep(50 * time.Millisecond)

				// one channel at a time: a select over two ready channels would be decided by the Go runtime
				for again := true; again; {
					select {
					case vp := <-nd.box.Voteproof():
						w.offer(vp, fmt.Sprintf("node%d ballotbox", i), "")

						if vp.Result() == base.VoteResultMajority && (vp.Point().Equal(sp2) || vp.Point().Equal(sp1)) {
							nd.done = true
						}
					default:
						again = false
					}
				}

				for again := true; again; {
					select {
					case vp := <-nd.resolver.Voteproof():
						r.Probe("stuck_voteproof")
						w.offer(vp, fmt.Sprintf("node%d stuck resolver", i), "")

						if k := vp.Point().String(); vp.Point().Equal(sp1) && !nd.stuckFor[k] {
							nd.stuckFor[k] = true
							nextRound(nd, vp)
						}
					default:
						again = false
					}
				}
			}
		})
	}

	if healAt > 0 {
		r.Go("heal", func() {
			r.Sleep(healAt)
			nt.healed = true
			r.Fault("partition_healed")
		})
	}

	if ngroups > 1 {
		r.Fault("partition")
	}

	r.Sched(simkit.SchedOpts{
		MaxSteps: 1500000, MaxSim: deadline + 2*time.Second, Stick: r.DrawStick(),
		Quanta: []time.Duration{10 * time.Millisecond, 50 * time.Millisecond},
	})

	return sp1, sp2
}
