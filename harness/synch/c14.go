// Package synch holds the sync-group harnesses (block-map chains, block import, suffrage history).
package synch

import (
	"context"
	"fmt"
	"time"

	"github.com/pkg/errors"
	"github.com/spikeekips/mitum/base"
	"github.com/spikeekips/mitum/simkit"
	"github.com/spikeekips/mitum/util/valuehash"
)

func c14Chain(from base.Height, n int) (prev base.BlockMap, maps []base.BlockMap) {
	var prevHash = valuehash.RandomSHA256()

	if from > base.GenesisHeight {
		m := base.NewDummyManifest(from-1, prevHash)
		prev = base.NewDummyBlockMap(m)
	} else {
		prevHash = nil
	}

	for i := 0; i < n; i++ {
		h := valuehash.RandomSHA256()
		m := base.NewDummyManifest(from+base.Height(i), h)
		m.SetPrevious(prevHash)
		maps = append(maps, base.NewDummyBlockMap(m))
		prevHash = h
	}

	return prev, maps
}

func c14Run(r *simkit.Run) {
	n := r.Draw("chain_length", 1, 40)
	if r.Tier == "thorough" && r.Chance(1, 4) {
		n = 40 + r.Choose(161)
	}

	limit := int64(r.Draw("batch_limit", 1, 12))
	if r.Chance(1, 4) {
		limit = int64(13 + r.Choose(38))
	}

	from := base.GenesisHeight
	if r.Chance(2, 3) {
		from = base.Height(1 + r.Choose(50))
	}

	prev, chain := c14Chain(from, n)
	served := append([]base.BlockMap(nil), chain...)

	breakKind := r.Draw("break", 0, 5) // 0 none, 1 wrong previous hash, 2 wrong height, 3 swapped, 4 remote error, 5 none
	breakAt := r.Choose(n)
	desc := "intact chain"
	broken := false
	dontcare := false // the maps are linked but answered under each other's height: accepting or refusing are both in line with the statement

	switch breakKind {
	case 1:
		m := base.NewDummyManifest(from+base.Height(breakAt), chain[breakAt].Manifest().Hash())
		m.SetPrevious(valuehash.RandomSHA256())
		served[breakAt] = base.NewDummyBlockMap(m)

		// the map at the first height without a previous map to compare with is never checked against a previous hash
		if !(breakAt == 0 && prev == nil) {
			broken = true
		}

		desc = fmt.Sprintf("map %d carries a wrong previous hash", breakAt)
		r.Fault("wrong_previous_hash")
	case 2:
		other := from + base.Height(breakAt) + base.Height(1+r.Choose(3))
		if r.Chance(1, 2) && breakAt > 0 {
			other = from + base.Height(breakAt) - 1
		}

		m := base.NewDummyManifest(other, chain[breakAt].Manifest().Hash())
		m.SetPrevious(chain[breakAt].Manifest().Previous())
		served[breakAt] = base.NewDummyBlockMap(m)
		broken = true
		desc = fmt.Sprintf("the map served for height %d claims height %d", from+base.Height(breakAt), other)
		r.Fault("wrong_height")
	case 3:
		if breakAt+1 < n {
			if r.Chance(1, 2) || (breakAt == 0 && prev == nil) {
				// (a genesis map has no previous hash; giving its content another height would be an invalid manifest, which decoding refuses)
				// two answers swapped: every map still sits at its own height once placed, the chain is intact
				served[breakAt], served[breakAt+1] = served[breakAt+1], served[breakAt]
				dontcare = true
				desc = fmt.Sprintf("the answers for maps %d and %d are swapped (the maps themselves are linked)", breakAt, breakAt+1)
				r.Fault("swapped_answers")
			} else {
				// two maps swapped in the chain: each keeps its content but claims the other's height
				a, b := chain[breakAt], chain[breakAt+1]
				ma := base.NewDummyManifest(b.Manifest().Height(), a.Manifest().Hash())
				ma.SetPrevious(a.Manifest().Previous())
				mb := base.NewDummyManifest(a.Manifest().Height(), b.Manifest().Hash())
				mb.SetPrevious(b.Manifest().Previous())
				served[breakAt], served[breakAt+1] = base.NewDummyBlockMap(mb), base.NewDummyBlockMap(ma)
				broken = true
				desc = fmt.Sprintf("maps %d and %d are swapped in the chain", breakAt, breakAt+1)
				r.Fault("swapped_maps")
			}
		}
	case 4:
		broken = true
		desc = fmt.Sprintf("the remote fails for map %d", breakAt)
		r.Fault("remote_error")
	}

	errRemote := errors.New("remote error")
	lat := []time.Duration{0, time.Millisecond, 20 * time.Millisecond, 300 * time.Millisecond}
	seen := map[base.Height]int{}
	requested := map[base.Height]int{}

	var (
		ret  error
		done bool
	)

	to := from + base.Height(n) - 1

	r.Go("validate", func() {
		ret = base.BatchIsValidMaps(context.Background(), prev, to, limit,
			func(ctx context.Context, h base.Height) (base.BlockMap, error) {
				requested[h]++

				// per-request latency decides the arrival order inside a batch
				if d := lat[r.Choose(len(lat))]; d > 0 {
					select {
					case <-ctx.Done():
						return nil, ctx.Err()
					case <-time.After(d):
					}
				}

				r.ForceYield("blockmap-arrives")

				i := int(h - from)
				if i < 0 || i >= n {
					return nil, errors.Errorf("height %d out of range", h)
				}

				if breakKind == 4 && i == breakAt {
					return nil, errRemote
				}

				return served[i], nil
			},
			func(m base.BlockMap) error {
				seen[m.Manifest().Height()]++

				return nil
			},
		)
		done = true
	})

	r.Sched(simkit.SchedOpts{MaxSteps: 3000000, Stick: r.DrawStick(), MaxSim: time.Hour})
	r.Op("chain %d..%d, batch limit %d, %s -> err=%v", from, to, limit, desc, ret != nil)

	if !done {
		r.Fail("liveness", "batch", "BatchIsValidMaps did not return")
	}

	r.Checked()

	switch {
	case dontcare && ret != nil:
	case broken && ret == nil:
		sig := [...]string{"", "wrong-previous-hash", "wrong-height", "swapped-maps", "remote-error"}[breakKind]
		r.Fail("broken-chain-accepted", sig, "n=%d batch limit %d from %d: %s, yet validation succeeded", n, limit, from, desc)
	case !broken && !dontcare && ret != nil:
		sig := "intact"
		if int64(n)%limit == 0 {
			sig = "intact:length-multiple-of-limit"
		}

		r.Fail("linked-chain-rejected", sig, "n=%d batch limit %d from %d: %s, yet validation failed: %v", n, limit, from, desc, ret)
	case ret == nil:
		for i := 0; i < n; i++ {
			h := from + base.Height(i)
			if seen[h] != 1 {
				r.Fail("callback-count", "not-once", "height %d was handed to the callback %d times on success", h, seen[h])
			}
		}
	}
}

func init() {
	simkit.Register(&simkit.Harness{
		ID:          "C14",
		Run:         c14Run,
		Real:        []string{"base.BatchIsValidMaps", "base.IsValidMaps", "base.IsValidManifests", "util.BatchWork / BaseJobWorker"},
		Stub:        []string{"remote: a harness function serving signed-less dummy block maps (base.DummyBlockMap) with per-request latency on the fake clock", "single breaks injected by the harness"},
		Rule:        "each run draws a chain of 1-40 maps (thorough: up to 200) starting at genesis or later, a batch limit 1..50, per-request latencies (so arrival order inside a batch is the tape's) and one break or none: wrong previous hash, a map served for another height, two swapped maps, a remote error. Validation must succeed exactly when the served chain is linked; on success the callback saw every height exactly once. distinct = event-log hash",
		Assumptions: []string{"a wrong previous hash in the very first map of a genesis-started range has nothing to be compared with and is not counted as a break"},
	})
}
