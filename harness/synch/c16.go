package synch

import (
	"bytes"
	"compress/gzip"
	"context"
	"fmt"
	"io"
	"os"
	"path/filepath"
	"time"

	"github.com/spikeekips/mitum/base"
	"github.com/spikeekips/mitum/isaac"
	isaacblock "github.com/spikeekips/mitum/isaac/block"
	isaacdatabase "github.com/spikeekips/mitum/isaac/database"
	"github.com/spikeekips/mitum/simkit"
	leveldbstorage "github.com/spikeekips/mitum/storage/leveldb"
	"github.com/spikeekips/mitum/util"
	"github.com/spikeekips/mitum/util/fixedtree"
	"github.com/spikeekips/mitum/util/valuehash"
	"github.com/spikeekips/mitum/vh/common"
)

// C16: a block that BlockImporter stores also passes the repository's own
// block validator (IsValidBlockFromLocalFS).
//
// The sync source owns a suffrage key. It serves a real block written by
// LocalFSWriter, or a tampering of it written by the same writer (so that the
// item checksums and the signed block map are consistent with the tampered
// items) while the manifest - which the chain of block maps pins - stays the
// one of the real block.

type c16Content struct {
	ops     []base.Operation
	opstree fixedtree.Tree
	sts     []base.State
	ststree fixedtree.Tree
	pr      base.ProposalSignFact
	ivp     base.INITVoteproof
	avp     base.ACCEPTVoteproof
}

func c16Ops(local base.LocalNode, n int) []base.Operation {
	ops := make([]base.Operation, n)

	for i := range ops {
		fact := isaac.NewDummyOperationFact(util.UUID().Bytes(), valuehash.RandomSHA256())

		op, err := isaac.NewDummyOperation(fact, local.Privatekey(), common.NetworkID)
		if err != nil {
			panic(err)
		}

		ops[i] = op
	}

	return ops
}

func c16OpsTree(ops []base.Operation) fixedtree.Tree {
	if len(ops) == 0 {
		return fixedtree.Tree{}
	}

	w, err := fixedtree.NewWriter(base.OperationFixedtreeHint, uint64(len(ops)))
	if err != nil {
		panic(err)
	}

	for i, op := range ops {
		if err := w.Add(uint64(i), base.NewInStateOperationFixedtreeNode(op.Fact().Hash(), "")); err != nil {
			panic(err)
		}
	}

	tr, err := w.Tree()
	if err != nil {
		panic(err)
	}

	return tr
}

func c16States(height base.Height, n int, tag string) []base.State {
	sts := make([]base.State, n)

	for i := range sts {
		sts[i] = base.NewBaseState(height, fmt.Sprintf("key-%s-%d", tag, i), base.NewDummyStateValue(util.UUID().String()), valuehash.RandomSHA256(), nil)
	}

	return sts
}

func c16StatesTree(sts []base.State) fixedtree.Tree {
	if len(sts) == 0 {
		return fixedtree.Tree{}
	}

	w, err := fixedtree.NewWriter(base.StateFixedtreeHint, uint64(len(sts)))
	if err != nil {
		panic(err)
	}

	for i, st := range sts {
		if err := w.Add(uint64(i), fixedtree.NewBaseNode(st.Hash().String())); err != nil {
			panic(err)
		}
	}

	tr, err := w.Tree()
	if err != nil {
		panic(err)
	}

	return tr
}

func treeRoot(tr fixedtree.Tree) util.Hash {
	if tr.Len() < 1 {
		return nil
	}

	return tr.Root()
}

// writeBlock writes content under root with the given manifest and returns the signed block map.
func c16WriteBlock(root string, height base.Height, local base.LocalNode, c c16Content, manifest base.Manifest) (base.BlockMap, error) {
	_, enc := common.Encs()
	ctx := context.Background()

	fs, err := isaacblock.NewLocalFSWriter(root, height, enc, enc, local, common.NetworkID)
	if err != nil {
		return nil, err
	}

	for i, op := range c.ops {
		if err := fs.SetOperation(ctx, uint64(len(c.ops)), uint64(i), op); err != nil {
			return nil, err
		}
	}

	if c.opstree.Len() > 0 {
		if err := fs.SetOperationsTree(ctx, c.opstree); err != nil {
			return nil, err
		}
	}

	if err := fs.SetProposal(ctx, c.pr); err != nil {
		return nil, err
	}

	for i, st := range c.sts {
		if err := fs.SetState(ctx, uint64(len(c.sts)), uint64(i), st); err != nil {
			return nil, err
		}
	}

	if c.ststree.Len() > 0 {
		if err := fs.SetStatesTree(ctx, c.ststree); err != nil {
			return nil, err
		}
	}

	if err := fs.SetINITVoteproof(ctx, c.ivp); err != nil {
		return nil, err
	}

	if err := fs.SetACCEPTVoteproof(ctx, c.avp); err != nil {
		return nil, err
	}

	if err := fs.SetManifest(ctx, manifest); err != nil {
		return nil, err
	}

	return fs.Save(ctx)
}

func c16Readers(root string) *isaac.BlockItemReaders {
	encs, _ := common.Encs()

	readers := isaac.NewBlockItemReaders(root, encs, nil)
	if err := readers.Add(isaacblock.LocalFSWriterHint, isaacblock.NewDefaultItemReaderFunc(3)); err != nil {
		panic(err)
	}

	return readers
}

// c16ServeRecoded serves an item of the source with another transport compression than it is stored with.
func c16ServeRecoded(readers *isaac.BlockItemReaders, height base.Height, t base.BlockItemType, plain bool, cb func(isaac.BlockItemReader) error) (bool, error) {
	bfile, found, err := readers.ItemFile(height, t)
	if err != nil || !found {
		return found, err
	}

	f, found, err := readers.ReadFileFromItemFile(height, bfile)
	if err != nil || !found {
		return found, err
	}

	b, err := io.ReadAll(f)
	_ = f.Close()

	if err != nil {
		return true, err
	}

	format := bfile.CompressFormat()

	switch {
	case plain && format == "gz":
		gr, err := gzip.NewReader(bytes.NewReader(b))
		if err != nil {
			return true, err
		}

		if b, err = io.ReadAll(gr); err != nil {
			return true, err
		}

		format = ""
	case !plain && format == "":
		var buf bytes.Buffer

		gw := gzip.NewWriter(&buf)
		_, _ = gw.Write(b)
		_ = gw.Close()

		b, format = buf.Bytes(), "gz"
	}

	return true, readers.ItemFromReader(t, bytes.NewReader(b), format, cb)
}

var c16Kinds = []string{
	"untouched",
	"extra-state",
	"missing-state",
	"foreign-states-tree",
	"state-replaced",
	"extra-operation",
	"missing-operation",
	"foreign-operations-tree",
	"proposal-of-another-block",
	"voteproofs-of-another-block",
	"state-of-another-height",
	"operation-replaced",
}

func c16Run(r *simkit.Run) {
	encs, enc := common.Encs()

	root, err := os.MkdirTemp("", "verif-c16-")
	if err != nil {
		panic(err)
	}

	r.OnEnd(func() { _ = os.RemoveAll(root) })

	src, dst := filepath.Join(root, "source"), filepath.Join(root, "local")
	for _, d := range []string{src, dst} {
		if err := os.MkdirAll(d, 0o700); err != nil {
			panic(err)
		}
	}

	local := common.Local(0) // the sync source: a suffrage node
	cluster := common.NewCluster(0, 1+r.Choose(3), base.Threshold(67))

	height := base.Height(33)
	point := base.NewPoint(height, base.Round(r.Choose(2)))
	prev, prevSuffrage := valuehash.RandomSHA256(), valuehash.RandomSHA256()

	// ---- the real block ----
	var real c16Content

	real.ops = c16Ops(local, r.Draw("operations", 0, 4))
	real.opstree = c16OpsTree(real.ops)
	real.sts = c16States(height, r.Draw("states", 0, 4), "a")
	real.ststree = c16StatesTree(real.sts)

	mkProposal := func(ops []base.Operation) base.ProposalSignFact {
		ophs := make([][2]util.Hash, len(ops))
		for i, op := range ops {
			ophs[i] = [2]util.Hash{op.Hash(), op.Fact().Hash()}
		}

		pr := isaac.NewProposalSignFact(isaac.NewProposalFact(point, local.Address(), prev, ophs))
		if err := pr.Sign(local.Privatekey(), common.NetworkID); err != nil {
			panic(err)
		}

		return pr
	}

	real.pr = mkProposal(real.ops)

	manifest := isaac.NewManifest(height, prev, real.pr.Fact().Hash(), treeRoot(real.opstree), treeRoot(real.ststree), prevSuffrage, time.Now())

	mkVoteproofs := func(proposal, newblock util.Hash) (base.INITVoteproof, base.ACCEPTVoteproof) {
		ivp := cluster.MajorityINIT(point, isaac.NewINITBallotFact(point, prev, proposal, nil))
		avp := cluster.MajorityACCEPT(point, proposal, newblock)

		return ivp, avp
	}

	real.ivp, real.avp = mkVoteproofs(real.pr.Fact().Hash(), manifest.Hash())

	// ---- what the source serves ----
	kind := r.Draw("tampering", 0, len(c16Kinds)-1)
	served := real

	switch c16Kinds[kind] {
	case "extra-state":
		served.sts = append(append([]base.State{}, real.sts...), c16States(height, 1, "x")...)
	case "missing-state":
		if len(real.sts) > 0 {
			served.sts = append([]base.State{}, real.sts[:len(real.sts)-1]...)
		}
	case "foreign-states-tree":
		served.ststree = c16StatesTree(c16States(height, 1+r.Choose(4), "f"))
	case "state-replaced":
		if len(real.sts) > 0 {
			served.sts = append([]base.State{}, real.sts...)
			i := r.Choose(len(served.sts))
			served.sts[i] = base.NewBaseState(height, real.sts[i].Key(), base.NewDummyStateValue("forged "+util.UUID().String()), valuehash.RandomSHA256(), nil)
		}
	case "extra-operation":
		served.ops = append(append([]base.Operation{}, real.ops...), c16Ops(local, 1)...)
	case "missing-operation":
		if len(real.ops) > 0 {
			served.ops = append([]base.Operation{}, real.ops[:len(real.ops)-1]...)
		}
	case "foreign-operations-tree":
		served.opstree = c16OpsTree(c16Ops(local, 1+r.Choose(4)))
	case "proposal-of-another-block":
		served.pr = mkProposal(c16Ops(local, 1+r.Choose(2)))
	case "voteproofs-of-another-block":
		served.ivp, served.avp = mkVoteproofs(real.pr.Fact().Hash(), valuehash.RandomSHA256())
	case "state-of-another-height":
		if len(real.sts) > 0 {
			served.sts = append([]base.State{}, real.sts...)
			i := r.Choose(len(served.sts))
			served.sts[i] = base.NewBaseState(height-1, real.sts[i].Key(), real.sts[i].Value(), real.sts[i].Previous(), nil)
		}
	case "operation-replaced":
		if len(real.ops) > 0 {
			served.ops = append([]base.Operation{}, real.ops...)
			served.ops[r.Choose(len(served.ops))] = c16Ops(local, 1)[0]
		}
	}

	var bm base.BlockMap

	r.Do("setup", func() { bm, err = c16WriteBlock(src, height, local, served, manifest) })

	if err != nil {
		panic(fmt.Sprintf("writing the served block (%s): %+v", c16Kinds[kind], err))
	}

	// a second way of lying: the source hands out the signed block map of the real block (so it does not even need
	// a suffrage key) and serves the tampered items under it - the checksums of the map do not fit those items
	mapNote := "block map re-signed, checksums recomputed"
	sigSuffix := ""

	if kind != 0 && r.Flag("map_of_the_real_block") {
		src0 := filepath.Join(root, "source-real")
		if err := os.MkdirAll(src0, 0o700); err != nil {
			panic(err)
		}

		r.Do("setup", func() { bm, err = c16WriteBlock(src0, height, local, real, manifest) })

		if err != nil {
			panic(fmt.Sprintf("writing the real block: %+v", err))
		}

		mapNote = "under the untouched block map of the real block (checksums of the map do not fit the tampered items)"
		sigSuffix = ":with-the-map-of-the-real-block"

		r.Probe("tampered_items_under_the_real_map")
	}

	srcReaders := c16Readers(src)

	// would the repository's validator accept what the source serves?
	var srcValid error

	r.Do("setup", func() {
		srcValid = isaacblock.IsValidBlockFromLocalFS(srcReaders.Item, height, common.NetworkID, nil, nil, nil)
	})

	if kind == 0 && srcValid != nil {
		panic(fmt.Sprintf("the untouched block fails the validator: %+v", srcValid))
	}

	if srcValid != nil {
		r.Probe("served_block_fails_validator")
	}

	r.Op("source serves: %s (operations=%d states=%d); validator on the served block: %v", c16Kinds[kind], len(served.ops), len(served.sts), srcValid == nil)

	// ---- import ----
	mst := leveldbstorage.NewMemStorage()

	r.OnEnd(func() { _ = mst.Close() })

	bwdb := isaacdatabase.NewLeveldbBlockWrite(height, mst, encs, enc)
	merged := false

	var im *isaacblock.BlockImporter

	r.Do("setup", func() {
		im, err = isaacblock.NewBlockImporter(dst, encs, bm, bwdb, func(context.Context) error {
			merged = true

			return nil
		}, common.NetworkID)
	})

	if err != nil {
		r.Probe("importer_refused_block_map")
		r.Checked()

		return
	}

	var items []base.BlockItemType

	bm.Items(func(item base.BlockMapItem) bool {
		items = append(items, item.Type())

		return true
	})

	// a client that pushes every file of the block directory, the block map file included (a valid item type that is
	// not an item of the map), and one that forgets an item: Save must then refuse, or what it stores must be valid
	incomplete := ""

	if r.Chance(1, 4) {
		items = append(items, base.BlockItemMap)
		r.Probe("map_file_pushed_as_an_item")
	}

	if len(items) > 1 && r.Chance(1, 4) {
		k := r.Choose(len(items))
		if items[k] != base.BlockItemMap {
			incomplete = string(items[k])
			items = append(items[:k], items[k+1:]...)
			r.Probe("one_item_not_pushed")
		}
	}

	for i := len(items) - 1; i > 0; i-- {
		j := r.Choose(i + 1)
		items[i], items[j] = items[j], items[i]
	}

	// how each item travels: 0 as stored, 1 decompressed when stored compressed, 2 compressed when stored plain
	transport := make([]int, len(items))

	if r.Flag("source_recodes_items") {
		for i := range transport {
			transport[i] = []int{0, 1, 1, 2}[r.Choose(4)]
		}

		r.Probe("source_recodes_items")
	}

	nworkers := 1 + r.Choose(3)
	failed := make([]error, len(items))

	for w := 0; w < nworkers; w++ {
		w := w

		r.Go(fmt.Sprintf("import%d", w), func() {
			for i := w; i < len(items); i += nworkers {
				t := items[i]

				var (
					found bool
					err   error
				)

				switch transport[i] {
				case 0:
					_, found, err = srcReaders.Item(height, t, func(ir isaac.BlockItemReader) error {
						return im.WriteItem(t, ir)
					})
				default:
					// the source is free in how it sends an item: a compressed item may travel plain and a plain one
					// compressed; the format travels with the stream
					found, err = c16ServeRecoded(srcReaders, height, t, transport[i] == 1, func(ir isaac.BlockItemReader) error {
						return im.WriteItem(t, ir)
					})
				}

				switch {
				case err != nil:
					failed[i] = err
				case !found:
					failed[i] = fmt.Errorf("item %s not found at the source", t)
				}
			}
		})
	}

	r.Sched(simkit.SchedOpts{MaxSteps: 2000000, MaxSim: time.Hour, Stick: r.DrawStick()})

	if r.Unfinished() {
		r.Fail("liveness", "import", "the item imports did not finish")
	}

	r.Checked()

	for i := range failed {
		if failed[i] != nil {
			r.Probe("import_rejected_item")
			r.Op("import of %s rejected", items[i])

			if kind == 0 && items[i] != base.BlockItemMap {
				panic(fmt.Sprintf("the untouched block was rejected at item %s: %+v", items[i], failed[i]))
			}

			r.Do("setup", func() { _ = im.CancelImport(context.Background()) })

			return
		}
	}

	var saveErr error

	savedDone := false

	r.Go("save", func() {
		var deferred func(context.Context) error

		deferred, saveErr = im.Save(context.Background())
		if saveErr == nil && deferred != nil {
			saveErr = deferred(context.Background())
		}

		savedDone = true
	})

	r.Sched(simkit.SchedOpts{MaxSteps: 2000000, MaxSim: 2 * time.Hour})

	if !savedDone {
		r.Fail("liveness", "save", "Save did not return")
	}

	if saveErr != nil {
		r.Probe("save_rejected")

		if kind == 0 && incomplete == "" {
			panic(fmt.Sprintf("the untouched block was rejected by Save: %+v", saveErr))
		}

		return
	}

	r.Probe("block_stored")

	if !merged {
		r.Fail("save-without-merge", "merge", "Save succeeded but the block write database was not merged")
	}

	// ---- the stored block and the repository's own validator ----
	dstReaders := c16Readers(dst)

	var verr error

	r.Do("setup", func() {
		verr = isaacblock.IsValidBlockFromLocalFS(dstReaders.Item, height, common.NetworkID, nil, nil, nil)
	})

	if verr != nil {
		if incomplete != "" {
			sigSuffix += ":item-not-pushed"
			mapNote += "; the item " + incomplete + " was never pushed"
		}

		r.Fail("stored-block-fails-validator", c16Kinds[kind]+sigSuffix,
			"the source served a block with %s (%s, manifest of the real block); BlockImporter stored it, but IsValidBlockFromLocalFS on the stored files says: %v",
			c16Kinds[kind], mapNote, verr)
	}
}

func init() {
	simkit.Register(&simkit.Harness{
		ID:          "C16",
		Run:         c16Run,
		Real:        []string{"isaacblock.BlockImporter + LocalFSImporter (files in a per-run directory)", "isaacblock.LocalFSWriter (writes the served block)", "isaac.BlockItemReaders + default item reader", "isaacblock.IsValidBlockFromLocalFS (the reference validator)", "isaacdatabase.LeveldbBlockWrite on memory storage", "voteproof / operation / state validation"},
		Stub:        []string{"network between the sync source and the importer (items are read from the source's directory)", "database merge (flag)"},
		Rule:        "each run writes a real block (0-4 operations and states, 1-3 voters) and serves it untouched or with one of 11 tamperings (extra/missing/replaced state or operation, foreign states or operations tree, proposal or voteproofs of another block, state of another height), written by the real LocalFSWriter so that checksums and the signed block map fit the tampered items while the manifest stays the real one. In half of the tampered runs the source instead hands out the untouched block map of the real block and serves the tampered items under it. In half of the runs the source recodes items on the way (a compressed item travels plain, a plain one compressed; the format travels with the stream). 1-3 tasks import the items in a drawn order under seeded interleaving; when Save succeeds, IsValidBlockFromLocalFS must accept the stored block. distinct = event-log hash",
		Assumptions: []string{"the chain of block maps pins the manifest, so tamperings keep the manifest of the real block", "the untouched block must be importable and valid (otherwise the harness is wrong: trouble, not a violation)"},
	})
}
