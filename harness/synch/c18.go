package synch

import (
	"context"
	"fmt"
	"time"

	"github.com/pkg/errors"
	"github.com/spikeekips/mitum/base"
	"github.com/spikeekips/mitum/isaac"
	isaacblock "github.com/spikeekips/mitum/isaac/block"
	"github.com/spikeekips/mitum/simkit"
	"github.com/spikeekips/mitum/util"
	"github.com/spikeekips/mitum/util/fixedtree"
	"github.com/spikeekips/mitum/util/valuehash"
	"github.com/spikeekips/mitum/vh/common"
)

// c18Chain builds a real chain of suffrage proofs: suffrage height k lives in block k*2.
func c18Chain(n int, tag string) []base.SuffrageProof {
	proofs := make([]base.SuffrageProof, n)

	var prev base.State

	for k := 0; k < n; k++ {
		proofs[k] = c18Proof(k, prev, tag, base.Height(k*2))
		prev = proofs[k].State()
	}

	return proofs
}

// c18Proof builds the proof of suffrage height k on top of the state prev.
func c18Proof(k int, prev base.State, tag string, bh base.Height) base.SuffrageProof {
	{

		nodes := []base.SuffrageNodeStateValue{isaac.NewSuffrageNodeStateValue(common.Local(k%5), bh)}
		if k%2 == 1 {
			nodes = append(nodes, isaac.NewSuffrageNodeStateValue(common.Local(5+k%3), bh))
		}

		var prevHash util.Hash
		if prev != nil {
			prevHash = prev.Hash()
		}

		st := base.NewBaseState(bh, isaac.SuffrageStateKey, isaac.NewSuffrageNodesStateValue(base.Height(k), nodes), prevHash,
			[]util.Hash{valuehash.NewSHA256([]byte(fmt.Sprintf("%s-op-%d", tag, k)))})

		w, err := fixedtree.NewWriter(base.StateFixedtreeHint, 1)
		if err != nil {
			panic(err)
		}

		if err := w.Add(0, fixedtree.NewBaseNode(st.Hash().String())); err != nil {
			panic(err)
		}

		if err := w.Write(func(uint64, fixedtree.Node) error { return nil }); err != nil {
			panic(err)
		}

		tr, err := w.Tree()
		if err != nil {
			panic(err)
		}

		p, err := tr.Proof(st.Hash().String())
		if err != nil {
			panic(err)
		}

		manifest := base.NewDummyManifest(bh, valuehash.NewSHA256([]byte(fmt.Sprintf("%s-manifest-%d", tag, k))))
		manifest.SetSuffrage(st.Hash())
		manifest.SetStatesTree(tr.Root())

		signer := common.Local(0)

		return isaacblock.NewSuffrageProof(base.NewDummyBlockMapWithSign(manifest, signer.Address(), signer.Privatekey()), st, p)
	}
}

func c18Run(r *simkit.Run) {
	r.PanicIsViolation()

	n := r.Draw("suffrage_heights", 1, 24)
	batch := int64(r.Draw("batch_limit", 1, 8))

	if r.Tier == "thorough" && r.Chance(1, 6) {
		n = 300 + r.Choose(401)
		batch = 333
	}

	chain := c18Chain(n, "main")
	foreign := c18Chain(n, "foreign")

	local := -1 // suffrage height of the local state (-1: none)
	if r.Chance(2, 3) {
		local = r.Choose(n) - r.Choose(2)
		if local >= n {
			local = n - 1
		}
	}

	var localstate base.State
	if local >= 0 {
		localstate = chain[local].State()
	}

	// 0,1 none; 2 other height; 3 missing; 4 below local; 5 foreign chain; 6 error; 7 duplicate of neighbour;
	// 8 forged sibling: a proof of the right height that is a valid child of the genuine predecessor, but not the parent of the genuine successor
	// 9 a lying last proof: valid on its own, in a block above everything local, but of a suffrage height below the local one
	// (or absurdly far above the chain the remote then serves)
	fault := r.Draw("remote_fault", 0, 9)
	faultAt := r.Choose(n)
	lat := []time.Duration{0, time.Millisecond, 25 * time.Millisecond}
	errRemote := errors.New("remote error")
	faultHit := false

	b := isaac.NewSuffrageStateBuilder(common.NetworkID,
		func(context.Context) (base.Height, base.SuffrageProof, bool, error) {
			last := chain[n-1]

			if fault == 9 {
				faultHit = true
				r.Fault("lying_last_proof")

				k := 0
				if local > 0 {
					k = r.Choose(local) // below the local suffrage height
				}

				if r.Chance(1, 4) {
					k = n + 5 + r.Choose(1000) // far above what the remote can serve
				}

				liar := c18Proof(k, nil, "liar", base.Height(n*2+10))

				return liar.Map().Manifest().Height(), liar, true, nil
			}

			return last.Map().Manifest().Height(), last, true, nil
		},
		func(ctx context.Context, h base.Height) (base.SuffrageProof, bool, error) {
			if d := lat[r.Choose(len(lat))]; d > 0 {
				select {
				case <-ctx.Done():
					return nil, false, ctx.Err()
				case <-time.After(d):
				}
			}

			r.ForceYield("proof-arrives")

			k := int(h)
			if k < 0 || k >= n {
				return nil, false, nil
			}

			if k == faultAt {
				switch fault {
				case 2:
					faultHit = true
					r.Fault("proof_of_other_height")

					return chain[(k+1+r.Choose(3))%n], true, nil
				case 3:
					faultHit = true
					r.Fault("proof_missing")

					return nil, false, nil
				case 4:
					if local > 0 {
						faultHit = true
						r.Fault("proof_below_local_state")

						return chain[r.Choose(local)], true, nil
					}
				case 5:
					faultHit = true
					r.Fault("proof_of_foreign_chain")

					return foreign[k], true, nil
				case 6:
					faultHit = true
					r.Fault("remote_error")

					return nil, false, errRemote
				case 7:
					if k > 0 {
						faultHit = true
						r.Fault("duplicate_of_neighbour")

						return chain[k-1], true, nil
					}
				case 8:
					if k > 0 && k < n-1 {
						faultHit = true
						r.Fault("forged_sibling_proof")

						return c18Proof(k, chain[k-1].State(), "sibling", base.Height(k*2)), true, nil
					}
				}
			}

			return chain[k], true, nil
		},
		func(context.Context) (base.State, bool, error) { return nil, false, nil },
	)
	b.SetBatchLimit(batch)

	var (
		proofs []base.SuffrageProof
		ret    error
		done   bool
	)

	r.Go("build", func() {
		_, proofs, _, ret = b.Build(context.Background(), localstate)
		done = true
	})

	r.Sched(simkit.SchedOpts{MaxSteps: 5000000, Stick: r.DrawStick(), MaxSim: time.Hour})
	r.Op("remote has suffrage heights 0..%d, local=%d, batch limit %d, fault %d at %d (hit=%v) -> err=%v proofs=%d", n-1, local, batch, fault, faultAt, faultHit, ret != nil, len(proofs))

	if !done {
		r.Fail("liveness", "builder", "Build did not return")
	}

	r.Checked()

	if ret != nil {
		if !faultHit && fault < 2 {
			sig := "single-batch"
			if int64(n-local-1) > batch {
				sig = "more-than-one-batch"
			}

			r.Fail("valid-chain-rejected", sig, "a correct remote (0..%d) with local state %d and batch limit %d made Build fail: %v", n-1, local, batch, ret)
		}

		return
	}

	if fault == 9 {
		// the anchor itself lies: an error is the expected answer; "nothing new" (no proofs) is acceptable; proofs are not
		if len(proofs) > 0 {
			r.Fail("unlinked-proof-accepted", "lying-last-proof", "the remote's last proof does not belong to the chain it serves, yet Build returned %d proofs", len(proofs))
		}

		return
	}

	// success: a gap-free chain local+1 .. last, each proof proving against its predecessor
	if local == n-1 {
		return // nothing newer than the local state
	}

	want := n - 1 - local
	sig := "single-batch"

	if int64(want) > batch {
		sig = "more-than-one-batch"
	}

	if faultHit {
		sig += fmt.Sprintf(":remote-fault%d", fault)
	}

	if len(proofs) != want {
		var hs []int64
		for _, p := range proofs {
			if p == nil {
				hs = append(hs, -1)
			} else {
				hs = append(hs, p.SuffrageHeight().Int64())
			}
		}

		r.Fail("not-gap-free", sig, "local suffrage height %d, remote last %d, batch limit %d: Build succeeded with %d proofs %v, a gap-free chain has %d", local, n-1, batch, len(proofs), hs, want)
	}

	prevState := localstate

	for i, p := range proofs {
		if p == nil {
			r.Fail("not-gap-free", sig+":nil-proof", "proof %d of the returned chain is nil", i)
		}

		if got := p.SuffrageHeight().Int64(); got != int64(local+1+i) {
			r.Fail("not-gap-free", sig+":wrong-height", "proof %d of the returned chain has suffrage height %d, expected %d", i, got, local+1+i)
		}

		if err := p.Prove(prevState); err != nil {
			r.Fail("unlinked-proof-accepted", sig, "proof %d (suffrage height %d) of the returned chain does not prove against its predecessor: %v", i, p.SuffrageHeight(), err)
		}

		prevState = p.State()
	}
}

func init() {
	simkit.Register(&simkit.Harness{
		ID:          "C18",
		Run:         c18Run,
		Real:        []string{"isaac.SuffrageStateBuilder.Build / buildBatch / prove", "isaacblock.SuffrageProof.IsValid / Prove", "util/fixedtree proofs", "util.BatchWork"},
		Stub:        []string{"remote nodes: harness functions serving a real proof chain with latency and faulty answers", "block maps are signed base.DummyBlockMap"},
		Rule:        "each run draws a remote history of 1-24 suffrage heights (thorough: 300-700 with the shipped batch size 333), a batch limit 1-8, a local state at a random height (or none), per-request latencies (arrival order inside a batch) and one kind of faulty answer or none: a proof of another height, missing, below the local state, from a foreign chain, an error, a duplicate of the neighbour, a forged sibling (valid child of the genuine predecessor, not the parent of the genuine successor), a lying last proof (of a suffrage height below the local one or far above the served chain, in a higher block). Build must end in an error or in a gap-free chain local+1..last in which every proof proves against its predecessor; any panic is a violation; a correct remote must not be refused. distinct = event-log hash",
		Assumptions: []string{"except for the lying-last-proof fault the remote's last proof is honest (it is the anchor of the statement)"},
	})
}
