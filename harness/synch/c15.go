package synch

import (
	"context"
	"fmt"
	"time"

	"github.com/pkg/errors"
	"github.com/spikeekips/mitum/base"
	"github.com/spikeekips/mitum/isaac"
	isaacblock "github.com/spikeekips/mitum/isaac/block"
	"github.com/spikeekips/mitum/simkit"
	"github.com/spikeekips/mitum/util/valuehash"
)

// a recording importer: the batching and saving logic of ImportBlocks is what runs for real
type c15Importer struct {
	r         *simkit.Run
	h         base.Height
	saved     int
	deferred  int
	cancelled int
	savedSeq  int64
	mergedSeq int64
	failSave  bool
	failDefer bool
}

var errC15 = errors.New("injected import error")

func (im *c15Importer) WriteMap(base.BlockMap) error                              { return nil }
func (im *c15Importer) WriteItem(base.BlockItemType, isaac.BlockItemReader) error { return nil }

func (im *c15Importer) Save(context.Context) (func(context.Context) error, error) {
	im.r.ForceYield("importer.Save")

	if im.failSave {
		return nil, errC15
	}

	im.saved++
	im.savedSeq = im.r.Seq()

	return func(context.Context) error {
		if im.failDefer {
			return errC15
		}

		im.deferred++

		return nil
	}, nil
}

func (im *c15Importer) CancelImport(context.Context) error {
	im.cancelled++

	return nil
}

func c15Run(r *simkit.Run) {
	count := r.Draw("blocks", 1, 40)
	limit := int64(r.Draw("batch_limit", 1, 40))

	if r.Chance(1, 3) {
		// the count is a multiple of the batch limit
		limit = int64(r.Draw("limit_div", 1, 10))
		count = int(limit) * r.Draw("multiple", 1, 4)
		r.Probe("batch_multiple_of_limit")
	}

	from := base.Height(r.Choose(20))
	to := from + base.Height(count) - 1

	fault := r.Draw("fault", 0, 5) // 0,1 none; 2 blockmap error; 3 importer creation error; 4 Save error; 5 deferred error
	faultAt := from + base.Height(r.Choose(count))

	ims := map[base.Height]*c15Importer{}
	merges := 0

	var mergeSeqs []int64

	lat := []time.Duration{0, time.Millisecond, 30 * time.Millisecond}

	var (
		ret  error
		done bool
	)

	r.Go("import", func() {
		ret = isaacblock.ImportBlocks(context.Background(), from, to, limit, nil,
			func(ctx context.Context, h base.Height) (base.BlockMap, bool, error) {
				if d := lat[r.Choose(len(lat))]; d > 0 {
					select {
					case <-ctx.Done():
						return nil, false, ctx.Err()
					case <-time.After(d):
					}
				}

				r.ForceYield("blockmap")

				if fault == 2 && h == faultAt {
					r.Fault("blockmap_fetch_error")

					return nil, false, errC15
				}

				return base.NewDummyBlockMap(base.NewDummyManifest(h, valuehash.RandomSHA256())), true, nil
			},
			nil,
			func(m base.BlockMap) (isaac.BlockImporter, error) {
				h := m.Manifest().Height()
				if fault == 3 && h == faultAt {
					r.Fault("importer_error")

					return nil, errC15
				}

				im := &c15Importer{r: r, h: h, failSave: fault == 4 && h == faultAt, failDefer: fault == 5 && h == faultAt}
				ims[h] = im

				return im, nil
			},
			nil,
			func(context.Context) error {
				merges++
				mergeSeqs = append(mergeSeqs, r.Seq())

				return nil
			},
		)
		done = true
	})

	r.Sched(simkit.SchedOpts{MaxSteps: 3000000, Stick: r.DrawStick(), MaxSim: time.Hour})
	r.Op("import %d..%d (%d blocks) batch limit %d fault=%d at %d -> err=%v, %d merges", from, to, count, limit, fault, faultAt, ret != nil, merges)

	if !done {
		r.Fail("liveness", "import", "ImportBlocks did not return")
	}

	r.Checked()

	injected := fault >= 2

	if ret == nil {
		if injected {
			r.Fail("error-swallowed", fmt.Sprintf("fault%d", fault), "an error was injected at height %d (fault %d) but ImportBlocks reported success", faultAt, fault)
		}

		// success: every block from A to B stored and merged
		for h := from; h <= to; h++ {
			im := ims[h]

			sig := "count-not-multiple-of-limit"
			if int64(count)%limit == 0 {
				sig = "count-multiple-of-limit"
			}

			switch {
			case im == nil:
				r.Fail("block-not-stored", sig+":no-importer", "blocks %d..%d batch limit %d: success, but no importer was made for height %d", from, to, limit, h)
			case im.saved != 1 || im.deferred != 1:
				r.Fail("block-not-stored", sig, "blocks %d..%d (%d) batch limit %d: success, but height %d was saved %d times and its deferred part ran %d times", from, to, count, limit, h, im.saved, im.deferred)
			}

			merged := false

			for _, ms := range mergeSeqs {
				if ms > im.savedSeq {
					merged = true
				}
			}

			if !merged {
				r.Fail("block-not-merged", sig, "blocks %d..%d batch limit %d: success, but no merge ran after height %d was saved", from, to, limit, h)
			}
		}
	} else if !injected {
		r.Fail("spurious-error", "no-fault", "blocks %d..%d batch limit %d without any injected error failed: %v", from, to, limit, ret)
	}
}

func init() {
	simkit.Register(&simkit.Harness{
		ID:          "C15",
		Run:         c15Run,
		Real:        []string{"isaacblock.ImportBlocks (batching, saveImporters, cancelImporters)", "util.BatchWork / RunJobWorker"},
		Stub:        []string{"block importers and the merge function are recording stubs; block maps list no items so that only the batching and saving logic under test runs", "remote block-map source with latency and injected errors"},
		Rule:        "each run draws a range of 1-40 blocks and a batch limit 1-40 (in a third of the runs the count is forced to be a multiple of the limit), fetch latencies on the fake clock and one injected error or none (block-map fetch, importer creation, Save, deferred save). Success must mean that every height was saved once, its deferred part ran and a merge followed; an injected error must be reported. distinct = event-log hash",
		Assumptions: []string{"the real BlockImporter is not in this harness (its content checks are C16's subject)"},
	})
}
