//go:build verif

package quicmemberlist

import (
	"net"

	"github.com/spikeekips/mitum/base"
)

// VerifMembersPool is an exported wrapper around the unexported members pool.
type VerifMembersPool struct{ p *membersPool }

func NewVerifMembersPool() *VerifMembersPool { return &VerifMembersPool{p: newMembersPool()} }

func (v *VerifMembersPool) Set(m Member) bool                  { return v.p.Set(m) }
func (v *VerifMembersPool) Remove(k *net.UDPAddr) (bool, error) { return v.p.Remove(k) }
func (v *VerifMembersPool) Get(k *net.UDPAddr) (Member, bool)   { return v.p.Get(k) }
func (v *VerifMembersPool) Exists(k *net.UDPAddr) bool          { return v.p.Exists(k) }
func (v *VerifMembersPool) MembersLen(node base.Address) int    { return v.p.MembersLen(node) }
func (v *VerifMembersPool) Len() int                            { return v.p.Len() }
func (v *VerifMembersPool) Empty()                              { v.p.Empty() }

func (v *VerifMembersPool) MembersLenOthers(node base.Address, addr *net.UDPAddr) (int, int, bool) {
	return v.p.MembersLenOthers(node, addr)
}

func (v *VerifMembersPool) Traverse(f func(Member) bool) { v.p.Traverse(f) }

// NodeMembers returns the per-node member list as stored.
func (v *VerifMembersPool) NodeMembers(node base.Address) []Member {
	l, _ := v.p.members.Value(node.String())

	return l
}
