//go:build verif

package isaacdatabase

import "time"

// VerifCleanDepths exposes the configured clean-up depths (ballot, proposal, removed operations).
func (db *TempPool) VerifCleanDepths() (ballot, proposal, ops int) {
	return db.cleanRemovedBallotDeep, db.cleanRemovedProposalDeep, db.cleanRemovedNewOperationsDeep
}

// VerifCleanInterval exposes the clean-up period.
func (db *TempPool) VerifCleanInterval() time.Duration { return db.cleanRemovedNewOperationsInterval }
