//go:build verif

package isaacstates

import (
	"context"
	"time"

	"github.com/spikeekips/mitum/base"
	"github.com/spikeekips/mitum/isaac"
	"github.com/spikeekips/mitum/util"
)

// VerifBallotHandler gives the harness a real baseBallotHandler attached to a
// States: the local ballots it makes are made, signed and handed to the
// re-broadcast timers by mitum's own code.
type VerifBallotHandler struct{ h baseBallotHandler }

func VerifNewBallotHandler(
	sts *States,
	suf base.Suffrage,
	proposalSelect isaac.ProposalSelectFunc,
) *VerifBallotHandler {
	args := newBaseBallotHandlerArgs()
	args.ProposalSelectFunc = proposalSelect
	args.SuffrageVotingFindFunc = func(context.Context, base.Height, base.Suffrage) ([]base.SuffrageExpelOperation, error) {
		return nil, nil
	}
	args.NodeInConsensusNodesFunc = func(base.Node, base.Height) (base.Suffrage, bool, error) { return suf, true, nil }
	args.VoteFunc = func(bl base.Ballot) (bool, error) { return sts.args.Ballotbox.Vote(bl) }

	t := newBaseBallotHandlerType(StateConsensus, sts.networkID, sts.local, &args)
	t.setStates(sts)

	h := t.new()
	_, _ = h.baseHandler.enter(StateEmpty, nil)

	return &VerifBallotHandler{h: h}
}

// INIT makes (pool lookup, proposal, sign) and schedules the broadcast of the local INIT ballot, as prepareINITBallot does.
func (v *VerifBallotHandler) INIT(ctx context.Context, point base.Point, prev util.Hash, vp base.Voteproof, suf base.Suffrage) error {
	bl, err := v.h.makeINITBallot(ctx, point, prev, vp, suf, time.Nanosecond)
	if err != nil {
		return err
	}

	go func() {
		_, _ = v.h.vote(bl)
	}()

	return v.h.bbt.INIT(bl, time.Nanosecond)
}

// ACCEPT likewise for the ACCEPT ballot (defaultPrepareACCEPTBallot).
func (v *VerifBallotHandler) ACCEPT(ivp base.INITVoteproof, newBlock util.Hash) error {
	bl, err := v.h.makeACCEPTBallot(ivp, newBlock, nil)
	if err != nil {
		return err
	}

	go func() {
		_, _ = v.h.vote(bl)
	}()

	return v.h.bbt.ACCEPT(bl, time.Nanosecond)
}
