//go:build verif

package isaacstates

import (
	"github.com/pkg/errors"
	"github.com/spikeekips/mitum/base"
)

// Outcomes a stub handler can be told to produce.
const (
	VerifOK = iota
	VerifError
	VerifRedirect // return a switch context to VerifScript's redirect state
	VerifIgnore   // ErrIgnoreSwitchingState
)

// VerifEvent is one call into a stub handler.
type VerifEvent struct {
	Kind      string // enter, exit, voteproof
	State     StateType
	From      StateType // enter: the state entered from; exit: sctx.from()
	Next      StateType // exit: sctx.next()
	Allowed   bool      // States.AllowedConsensus() at the moment of the call
	Outcome   int
	Redirect  StateType
}

// VerifScript decides the outcome of a stub handler call and receives the event.
type VerifScript func(ev VerifEvent) (outcome int, redirect StateType)

type verifStub struct {
	sts    *States
	st     StateType
	script VerifScript
}

var errVerifStub = errors.New("stub handler failure")

func (h *verifStub) state() StateType { return h.st }

func (h *verifStub) outcome(ev VerifEvent) error {
	ev.State = h.st
	ev.Allowed = h.sts.AllowedConsensus()

	o, redirect := h.script(ev)

	switch o {
	case VerifError:
		return errVerifStub
	case VerifRedirect:
		return newBaseSwitchContext(h.st, redirect)
	case VerifIgnore:
		return ErrIgnoreSwitchingState.Errorf("stub ignores")
	default:
		return nil
	}
}

func (h *verifStub) enter(from StateType, _ switchContext) (func(), error) {
	if err := h.outcome(VerifEvent{Kind: "enter", From: from}); err != nil {
		return nil, err
	}

	return func() {}, nil
}

func (h *verifStub) exit(sctx switchContext) (func(), error) {
	ev := VerifEvent{Kind: "exit"}
	if sctx != nil {
		ev.From, ev.Next = sctx.from(), sctx.next()
	}

	if err := h.outcome(ev); err != nil {
		return nil, err
	}

	return func() {}, nil
}

func (h *verifStub) newVoteproof(base.Voteproof) error {
	return h.outcome(VerifEvent{Kind: "voteproof"})
}

func (h *verifStub) allowedConsensus() bool { return h.sts.AllowedConsensus() }

// like the real joining/consensus handlers: when consensus is withdrawn, ask to leave for syncing
func (h *verifStub) whenSetAllowConsensus(allow bool) {
	if !allow && (h.st == StateJoining || h.st == StateConsensus) {
		_ = h.sts.AskMoveState(emptySyncingSwitchContext(h.st))
	}
}

type verifNewStub struct {
	sts    *States
	st     StateType
	script VerifScript
}

func (n *verifNewStub) new() (handler, error) {
	return &verifStub{sts: n.sts, st: n.st, script: n.script}, nil
}

func (n *verifNewStub) setStates(sts *States) { n.sts = sts }

// VerifInstallStubHandlers registers a stub handler for every state.
func VerifInstallStubHandlers(st *States, script VerifScript) {
	for _, s := range []StateType{StateStopped, StateBooting, StateJoining, StateConsensus, StateSyncing, StateHandover, StateBroken} {
		st.SetHandler(s, &verifNewStub{st: s, script: script})
	}
}

// VerifAskMoveState asks for a switch with a plain switch context.
func (st *States) VerifAskMoveState(from, next StateType) error {
	return st.AskMoveState(newBaseSwitchContext(from, next))
}

// VerifNewVoteproof injects a voteproof through the states' own channel.
func (st *States) VerifNewVoteproof(vp base.Voteproof) {
	go func() {
		st.vpch <- emptyVoteproofWithErrchan(vp)
	}()
}
