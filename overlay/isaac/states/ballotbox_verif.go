//go:build verif

package isaacstates

import (
	"unsafe"

	"github.com/spikeekips/mitum/base"
)

// VerifRecord describes one entry of the ballotbox's record map.
type VerifRecord struct {
	Key   string
	Ptr   uintptr
	Point base.StagePoint // the record's own stage point (zero once it was put into the pool)
	IsSC  bool
}

// VerifRecords lists (key, record identity, record stage point) of the live record map.
func (box *Ballotbox) VerifRecords() []VerifRecord {
	var out []VerifRecord

	box.vrs.Traverse(func(k string, vr *voterecords) bool {
		out = append(out, VerifRecord{Key: k, Ptr: uintptr(unsafe.Pointer(vr)), Point: vr.stagepoint(), IsSC: vr.isSuffrageConfirm()})

		return true
	})

	return out
}

// VerifRemoved lists the records waiting in the removed list (to be put into the pool at the next clean).
func (box *Ballotbox) VerifRemoved() []uintptr {
	var out []uintptr

	_ = box.removed.Get(func(removed []*voterecords, _ bool) error {
		for i := range removed {
			out = append(out, uintptr(unsafe.Pointer(removed[i])))
		}

		return nil
	})

	return out
}

// VerifClean runs the box's own clean-up cycle.
func (box *Ballotbox) VerifClean() { box.clean() }

// VerifHookPoolPut wraps the package's pool-put function so that every put is reported; returns the restore function.
func VerifHookPoolPut(f func(ptr uintptr)) (restore func()) {
	orig := voterecordsPoolPut

	voterecordsPoolPut = func(vr *voterecords) {
		f(uintptr(unsafe.Pointer(vr)))
		orig(vr)
	}

	return func() { voterecordsPoolPut = orig }
}
