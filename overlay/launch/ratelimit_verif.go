//go:build verif

package launch

import "github.com/spikeekips/mitum/base"

// VerifHasAddr reports whether the address pool holds limiters for addr.
func (r *RateLimitHandler) VerifHasAddr(addr string) bool { return r.pool.l.Exists(addr) }

// VerifBoundNode returns the node an address has been bound to (nil if none).
func (r *RateLimitHandler) VerifBoundNode(addr string) base.Address {
	n, _ := r.pool.addrs.Value(addr)

	return n
}
