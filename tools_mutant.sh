#!/bin/bash
# usage: tools_mutant.sh <ID> <file> <python-expr-old> <new>   (development aid: apply a one-line edit to /repo, run the quick check, undo)
set -u
ID=$1; F=$2; OLD=$3; NEW=$4
python3 - "$F" "$OLD" "$NEW" <<'P'
import sys
p,old,new=sys.argv[1:4]
s=open(p).read()
if old not in s: print("OLD NOT FOUND"); sys.exit(3)
open(p,'w').write(s.replace(old,new,1))
P
[ $? -eq 0 ] || exit 3
cd /verif && ./check $ID --no-evidence 2>&1 | tail -6 | cut -c1-900
git -C /repo checkout -- .
