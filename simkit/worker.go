package simkit

import (
	"encoding/json"
	"fmt"
	"os"
	"runtime"
	"runtime/debug"
	"strconv"
	"strings"
	"sync/atomic"
	"testing"
	"time"
)

// Replay is the replay file written for a violation.
type Replay struct {
	Property       string    `json:"property"`
	Harness        string    `json:"harness,omitempty"` // registered harness that ran (differs from the property for shared populations, e.g. the cluster)
	Focus          string    `json:"focus,omitempty"`   // VERIF_FOCUS the run was made with
	Tier           string    `json:"tier"`
	Seed           uint64    `json:"seed"`
	RunIndex       uint64    `json:"run_index"`
	RunSeed        uint64    `json:"run_seed"`
	Tape           []uint32  `json:"tape"`
	OrigTapeLen    int       `json:"orig_tape_len"`
	Violation      Violation `json:"violation"`
	Config         []KV      `json:"config"`
	Ops            []string  `json:"ops"`
	Events         []string  `json:"events"`
	EventHash      string    `json:"event_hash"`
	ShrinkRuns     int       `json:"shrink_runs"`
	GoVersion      string    `json:"go_version"`
	ReplayVerified *bool     `json:"replay_verified,omitempty"`
}

// Sample is a fully written-out run for the evidence file.
type Sample struct {
	RunIndex uint64         `json:"run_index"`
	Config   []KV           `json:"config"`
	Ops      []string       `json:"ops"`
	Steps    int            `json:"kernel_steps"`
	SimMs    int64          `json:"sim_ms"`
	Faults   map[string]int `json:"faults,omitempty"`
	Outcome  string         `json:"outcome"`
}

// Result is what one worker process writes.
type Result struct {
	Property    string         `json:"property"`
	Runs        int            `json:"runs"`
	Steps       int64          `json:"kernel_steps"`
	SimNs       int64          `json:"sim_ns"`
	Faults      map[string]int `json:"faults"`
	Probes      map[string]int `json:"probes"`
	Hashes      []string       `json:"hashes"` // event-log hashes of non-trivial runs
	AllHashes   int            `json:"all_hashes"`
	Samples     []Sample       `json:"samples"`
	Violations  []Replay       `json:"violations"`
	Known       []Violation    `json:"known"`
	Checks      int64          `json:"oracle_checks"`
	Truncated   int            `json:"truncated"`
	Stalled     int            `json:"stalled"`
	WouldBlock  int            `json:"would_block"`
	Trouble     string         `json:"trouble,omitempty"`
	WallS       float64        `json:"wall_s"`
	Real        []string       `json:"real"`
	Stub        []string       `json:"stub"`
	Rule        string         `json:"rule"`
	Assumptions []string       `json:"assumptions"`
	ReplayOK    *bool          `json:"replay_ok,omitempty"`
	ReplayHash  string         `json:"replay_hash,omitempty"`
	DetHashes   []string       `json:"det_hashes,omitempty"`
}

type knownEntry struct {
	Property  string `json:"property"`
	Clause    string `json:"clause"`
	Signature string `json:"signature"`
	Status    string `json:"status"` // "known" or "fixed"
}

func envInt(name string, def int64) int64 {
	if s := os.Getenv(name); s != "" {
		if v, err := strconv.ParseInt(s, 10, 64); err == nil {
			return v
		}
	}

	return def
}

var progress atomic.Int64

// WorkerMain is called from the TestWorker of every harness package.
func WorkerMain(t *testing.T) {
	id := os.Getenv("VERIF_PROP")
	if id == "" {
		t.Skip("VERIF_PROP not set")
	}

	h := Lookup(id)
	if h == nil {
		fmt.Fprintf(os.Stderr, "unknown harness %q (have %v)\n", id, IDs())
		os.Exit(2)
	}

	if h.Setup != nil {
		h.Setup()
	}

	out := os.Getenv("VERIF_OUT")
	tier := os.Getenv("VERIF_TIER")
	if tier == "" {
		tier = "quick"
	}

	seed := uint64(envInt("VERIF_SEED", 1))
	from := uint64(envInt("VERIF_RUN_FROM", 0))
	stride := uint64(envInt("VERIF_RUN_STRIDE", 1))
	maxRuns := envInt("VERIF_MAX_RUNS", 1<<40)
	budget := time.Duration(envInt("VERIF_BUDGET_MS", 10000)) * time.Millisecond

	var known []knownEntry
	if p := os.Getenv("VERIF_KNOWN"); p != "" {
		if b, err := os.ReadFile(p); err == nil {
			var all struct {
				Findings []knownEntry `json:"findings"`
			}
			if err := json.Unmarshal(b, &all); err != nil {
				fmt.Fprintln(os.Stderr, "bad known findings file:", err)
				os.Exit(2)
			}

			kprop := id
			if f := os.Getenv("VERIF_FOCUS"); f != "" {
				kprop = f
			}

			for _, e := range all.Findings {
				if e.Property == kprop && e.Status == "known" {
					known = append(known, e)
				}
			}
		}
	}

	isKnown := func(clause, sig string) bool {
		for _, e := range known {
			if e.Clause == clause && e.Signature == sig {
				return true
			}
		}

		return false
	}

	// watchdog on the real clock, outside every bubble
	go func() {
		last := progress.Load()
		lastT := time.Now()

		for {
			time.Sleep(time.Second) //nolint
			cur := progress.Load()
			if cur != last {
				last, lastT = cur, time.Now()

				continue
			}

			if time.Since(lastT) > time.Duration(envInt("VERIF_WATCHDOG_S", 300))*time.Second {
				buf := make([]byte, 1<<20)
				n := runtime.Stack(buf, true)
				fmt.Fprintf(os.Stderr, "WATCHDOG: no progress; goroutines:\n%s\n", buf[:n])
				os.Exit(2)
			}
		}
	}()

	debug.SetGCPercent(400)

	res := &Result{
		Property: id, Faults: map[string]int{}, Probes: map[string]int{},
		Real: h.Real, Stub: h.Stub, Rule: h.Rule, Assumptions: h.Assumptions,
	}
	started := time.Now()

	write := func() {
		res.WallS = time.Since(started).Seconds()

		if out != "" {
			b, _ := json.Marshal(res)
			if err := os.WriteFile(out, b, 0o644); err != nil {
				fmt.Fprintln(os.Stderr, "write result:", err)
				os.Exit(2)
			}
		}
	}

	if rp := os.Getenv("VERIF_REPLAY"); rp != "" {
		b, err := os.ReadFile(rp)
		if err != nil {
			fmt.Fprintln(os.Stderr, "read replay:", err)
			os.Exit(2)
		}

		var rep Replay
		if err := json.Unmarshal(b, &rep); err != nil {
			fmt.Fprintln(os.Stderr, "bad replay:", err)
			os.Exit(2)
		}

		o := Execute(t, h, rep.RunSeed, rep.RunIndex, rep.Tier, NewTapeFromWords(rep.Tape), true, nil)
		ok := o.Violation != nil && o.Violation.Clause == rep.Violation.Clause
		res.ReplayOK = &ok
		res.ReplayHash = fmt.Sprintf("%016x", o.Run.EvHash)
		res.Runs = 1
		res.Trouble = o.Trouble

		if o.Violation != nil {
			rep2 := rep
			rep2.Violation = *o.Violation
			rep2.Events = o.Run.Events
			rep2.EventHash = res.ReplayHash
			res.Violations = append(res.Violations, rep2)
		}

		write()

		return
	}

	seen := map[uint64]struct{}{}
	seenNT := map[uint64]struct{}{}
	knownSeen := map[string]bool{}

	maxSysMB := uint64(envInt("VERIF_MAX_SYS_MB", 3500))

	for n := int64(0); n < maxRuns; n++ {
		if time.Since(started) > budget {
			break
		}

		// goroutines left blocked by finished bubbles (goleveldb, timers) keep their memory: the driver
		// recycles worker processes, and a worker that grew too much ends its slice early
		if n&15 == 15 {
			var ms runtime.MemStats

			runtime.ReadMemStats(&ms)

			if ms.Sys>>20 > maxSysMB {
				break
			}
		}

		idx := from + uint64(n)*stride
		rs := Mix(seed, idx)
		tape := NewTapeFromSeed(rs)
		dump := os.Getenv("VERIF_DUMP")
		if dump != "" {
			SetEventCap(2000000)
		}
		if os.Getenv("VERIF_TRACE_RUNS") != "" { // development aid
			fmt.Fprintf(os.Stderr, "run %d starts at %.1fs\n", idx, time.Since(started).Seconds())
		}
		// development aid: full event logs per run, for diffing two processes
		o := Execute(t, h, rs, idx, tier, tape, dump != "", isKnown)
		progress.Add(1)

		if dump != "" {
			_ = os.WriteFile(fmt.Sprintf("%s/run-%d.log", dump, idx), []byte(strings.Join(o.Run.Events, "\n")+"\n"), 0o600)
		}

		r := o.Run

		if r.Kernel == nil {
			res.Trouble = fmt.Sprintf("run %d: bubble did not start: %s", idx, o.Trouble)
			write()
			fmt.Fprintln(os.Stderr, res.Trouble)
			os.Exit(2)
		}

		res.Runs++
		res.Steps += int64(r.Steps)
		res.SimNs += int64(r.SimTime)
		res.Checks += int64(r.Checks)
		res.WouldBlock += r.WouldBlock

		if r.Truncated {
			res.Truncated++
		}

		if r.Stalled {
			res.Stalled++
		}

		for k, v := range r.Faults {
			res.Faults[k] += v
		}

		for k, v := range r.Probes {
			res.Probes[k] += v
		}

		seen[r.EvHash] = struct{}{}

		if os.Getenv("VERIF_DET") != "" {
			res.DetHashes = append(res.DetHashes, fmt.Sprintf("%016x", r.EvHash))
		}

		if tape.NonZero > 0 && r.Checks > 0 {
			if _, ok := seenNT[r.EvHash]; !ok {
				seenNT[r.EvHash] = struct{}{}
			}
		}

		for _, kv := range o.Known {
			key := kv.Clause + "|" + kv.Signature
			if !knownSeen[key] {
				knownSeen[key] = true
				res.Known = append(res.Known, kv)
			}
		}

		if o.Trouble != "" {
			res.Trouble = fmt.Sprintf("run %d (seed %d): %s", idx, rs, o.Trouble)
			write()
			fmt.Fprintln(os.Stderr, res.Trouble)
			os.Exit(2)
		}

		if len(res.Samples) < 3 && (r.Checks > 0 || n > 20) {
			oc := "held"
			if o.Violation != nil {
				oc = "violation: " + o.Violation.Clause
			} else if len(o.Known) > 0 {
				oc = "known finding: " + o.Known[0].Clause
			}

			res.Samples = append(res.Samples, Sample{
				RunIndex: idx, Config: r.Cfg, Ops: r.Ops, Steps: r.Steps,
				SimMs: r.SimTime.Milliseconds(), Faults: r.Faults, Outcome: oc,
			})
		}

		if o.Violation != nil {
			rep := shrink(t, h, rs, idx, tier, tape.Words(), *o.Violation, isKnown)
			rep.Seed = seed
			res.Violations = append(res.Violations, rep)

			break
		}
	}

	res.AllHashes = len(seen)
	for hsh := range seenNT {
		res.Hashes = append(res.Hashes, fmt.Sprintf("%016x", hsh))
	}

	write()
}

// shrink minimises the tape while the same violation clause (and the same
// known/unknown status) keeps firing; bounded by runs and wall time.
func shrink(t *testing.T, h *Harness, rs, idx uint64, tier string, words []uint32, v Violation, isKnown func(string, string) bool) Replay {
	deadline := time.Now().Add(time.Duration(envInt("VERIF_SHRINK_S", 45)) * time.Second)
	maxRuns := int(envInt("VERIF_SHRINK_RUNS", 400))
	runs := 0

	if os.Getenv("VERIF_NOSHRINK") != "" { // development aid
		maxRuns = 0
	}

	best := append([]uint32(nil), words...)
	bestV := v

	try := func(w []uint32) bool {
		if runs >= maxRuns || time.Now().After(deadline) {
			return false
		}

		runs++
		progress.Add(1)

		o := Execute(t, h, rs, idx, tier, NewTapeFromWords(w), false, isKnown)
		if o.Trouble != "" || o.Violation == nil || o.Violation.Clause != v.Clause {
			return false
		}

		bestV = *o.Violation

		return true
	}

	trim := func(w []uint32) []uint32 {
		for len(w) > 0 && w[len(w)-1] == 0 {
			w = w[:len(w)-1]
		}

		return w
	}

	// 1. shorter prefixes
	lo, hi := 0, len(best)
	for lo < hi && runs < maxRuns {
		mid := (lo + hi) / 2
		if try(best[:mid]) {
			hi = mid
		} else {
			lo = mid + 1
		}
	}

	if hi < len(best) && try(best[:hi]) {
		best = append([]uint32(nil), best[:hi]...)
	}

	best = trim(best)

	exhausted := func() bool { return runs >= maxRuns || time.Now().After(deadline) }

	// 2. zero out blocks, then delete blocks
	for size := (len(best) + 1) / 2; size >= 1 && !exhausted(); size /= 2 {
		for at := 0; at < len(best) && !exhausted(); at += size {
			end := at + size
			if end > len(best) {
				end = len(best)
			}

			allZero := true
			for _, x := range best[at:end] {
				if x != 0 {
					allZero = false
				}
			}

			if !allZero {
				c := append([]uint32(nil), best...)
				for i := at; i < end; i++ {
					c[i] = 0
				}

				if try(c) {
					best = c
				}
			}

			// deletion (shifts later choices; often still fails)
			d := append(append([]uint32(nil), best[:at]...), best[end:]...)
			if len(d) < len(best) && try(d) {
				best = d
				at -= size
			}
		}

		if size == 1 {
			break
		}
	}

	best = trim(best)

	// final run with logging
	o := Execute(t, h, rs, idx, tier, NewTapeFromWords(best), true, isKnown)
	if o.Violation != nil && o.Violation.Clause == v.Clause {
		bestV = *o.Violation
	} else {
		// should not happen; fall back to the original tape with its log
		best = words
		o = Execute(t, h, rs, idx, tier, NewTapeFromWords(best), true, isKnown)
		bestV = v
	}

	prop := h.ID
	if f := os.Getenv("VERIF_FOCUS"); f != "" {
		prop = f
	}

	return Replay{
		Property: prop, Harness: h.ID, Focus: os.Getenv("VERIF_FOCUS"), Tier: tier, RunIndex: idx, RunSeed: rs, Tape: best, OrigTapeLen: len(words),
		Violation: bestV, Config: o.Run.Cfg, Ops: o.Run.Ops, Events: o.Run.Events,
		EventHash: fmt.Sprintf("%016x", o.Run.EvHash), ShrinkRuns: runs, GoVersion: runtime.Version(),
	}
}
