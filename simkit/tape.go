// Package simkit is the simulator kernel: one run = one testing/synctest
// bubble; every decision (which parked task runs, when the clock moves, every
// fault and every generated input) is the next word of a choice tape derived
// from VERIF_SEED. See DESIGN.md section 2.
package simkit

// Tape is the choice tape of one run. In generate mode words come from a
// splitmix64 stream and are recorded; in replay mode they come from the
// recorded slice and an exhausted tape yields zeros ("the boring choice").
type Tape struct {
	words   []uint32
	pos     int
	gen     bool
	state   uint64
	limit   int // generate mode: after limit words, zeros
	NonZero int // consumed non-zero choices (after mod)
}

func splitmix(x *uint64) uint64 {
	*x += 0x9e3779b97f4a7c15
	z := *x
	z = (z ^ (z >> 30)) * 0xbf58476d1ce4e5b9
	z = (z ^ (z >> 27)) * 0x94d049bb133111eb

	return z ^ (z >> 31)
}

// Mix derives the seed of run idx from the batch seed.
func Mix(seed uint64, idx uint64) uint64 {
	s := seed*0x9e3779b97f4a7c15 + idx
	_ = splitmix(&s)

	return splitmix(&s)
}

func NewTapeFromSeed(seed uint64) *Tape {
	return &Tape{gen: true, state: seed, limit: 1 << 22}
}

func NewTapeFromWords(w []uint32) *Tape {
	c := make([]uint32, len(w))
	copy(c, w)

	return &Tape{words: c}
}

func (t *Tape) next() uint32 {
	if t.gen {
		if len(t.words) >= t.limit {
			t.pos++

			return 0
		}

		w := uint32(splitmix(&t.state) >> 32)
		t.words = append(t.words, w)
		t.pos++

		return w
	}

	if t.pos >= len(t.words) {
		t.pos++

		return 0
	}

	w := t.words[t.pos]
	t.pos++

	return w
}

// Choose returns a value in [0,n). n <= 1 consumes nothing.
func (t *Tape) Choose(n int) int {
	if n <= 1 {
		return 0
	}

	v := int(t.next() % uint32(n))
	if v != 0 {
		t.NonZero++
	}

	return v
}

// Words returns the words consumed so far (trailing zeros trimmed).
func (t *Tape) Words() []uint32 {
	n := t.pos
	if n > len(t.words) {
		n = len(t.words)
	}

	w := t.words[:n]
	for len(w) > 0 && w[len(w)-1] == 0 {
		w = w[:len(w)-1]
	}

	c := make([]uint32, len(w))
	copy(c, w)

	return c
}

// Consumed is the number of words asked for.
func (t *Tape) Consumed() int { return t.pos }
