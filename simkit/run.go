package simkit

import (
	"fmt"
	"os"
	"runtime"
	"runtime/debug"
	"sort"
	"sync"
	"sync/atomic"
	"testing/synctest"
	"time"

	"github.com/spikeekips/mitum/simrt"
)

// Violation is what an oracle reports.
type Violation struct {
	Clause    string `json:"clause"`    // oracle clause id, stable
	Signature string `json:"signature"` // normalised shape of the failing case (for known findings)
	Detail    string `json:"detail"`
	Known     bool   `json:"known,omitempty"`
}

type KV struct {
	K string `json:"k"`
	V int    `json:"v"`
}

// Run is one simulated execution; harnesses receive it.
type Run struct {
	*simrt.Kernel
	ID        string
	Tier      string
	Seed      uint64
	Index     uint64
	Tape      *Tape
	KeepLog   bool
	Steps     int
	Faults    map[string]int
	Probes    map[string]int
	Cfg       []KV
	Ops       []string // short human-readable operation log for samples (bounded)
	Events    []string
	EvHash    uint64
	Checks    int // non-vacuous oracle clause evaluations
	Truncated bool
	Stalled   bool

	start                time.Time
	mu                   sync.Mutex
	viol                 *Violation
	knownHit             []Violation
	live                 atomic.Int32
	cleanups             []func()
	known                func(clause, sig string) bool
	abort                chan struct{}
	panicked             atomic.Pointer[string]
	taskPanicIsViolation bool
	SimTime              time.Duration
	ended                bool // the run function has returned; clean-ups are running
	evseq                uint64
	lastTask             int
	post                 []func()
	inPost               bool
	prio                 map[int]int // PCT priorities by task id
	pctChange            []int
	pctLow               int
	timedOut             bool // a scheduling loop ended at its simulated-time budget with harness tasks unfinished
	sutPanic             func(site, value, stack string)
}

// AfterBubble registers work (typically a linearizability check of the
// recorded history) that runs on the real clock after the bubble has ended.
func (r *Run) AfterBubble(f func()) {
	r.mu.Lock()
	r.post = append(r.post, f)
	r.mu.Unlock()
}

type abortRun struct{}

// Seq returns a fresh, strictly increasing event sequence number (for
// stamping invoke/return of client operations).
func (r *Run) Seq() int64 { return int64(atomic.AddUint64(&r.evseq, 1)) }

func (r *Run) Choose(n int) int { return r.Tape.Choose(n) }

// Draw draws a configuration value in [lo,hi] and records it.
func (r *Run) Draw(name string, lo, hi int) int {
	v := lo + r.Tape.Choose(hi-lo+1)
	r.mu.Lock()
	r.Cfg = append(r.Cfg, KV{name, v})
	r.mu.Unlock()

	return v
}

// Flag is Draw(name,0,1)==1.
func (r *Run) Flag(name string) bool { return r.Draw(name, 0, 1) == 1 }

// Chance is true with probability num/den; a zero tape word is always false.
func (r *Run) Chance(num, den int) bool {
	return r.Tape.Choose(den) >= den-num
}

func (r *Run) Fault(kind string) {
	r.mu.Lock()
	r.Faults[kind]++
	r.mu.Unlock()
}

func (r *Run) Probe(name string) {
	r.mu.Lock()
	r.Probes[name]++
	r.mu.Unlock()
}

func (r *Run) ProbeN(name string, n int) {
	r.mu.Lock()
	r.Probes[name] += n
	r.mu.Unlock()
}

// Checked counts one non-vacuous oracle evaluation.
func (r *Run) Checked() {
	progress.Add(1) // oracle work on the root goroutine is progress too (the watchdog is for hangs)

	r.mu.Lock()
	r.Checks++
	r.mu.Unlock()
}

// Op appends to the human-readable op log (bounded) and to the event hash.
func (r *Run) Op(format string, a ...interface{}) {
	s := fmt.Sprintf(format, a...)
	r.Event(s)

	r.mu.Lock()
	if len(r.Ops) < 60 {
		r.Ops = append(r.Ops, s)
	}
	r.mu.Unlock()
}

// Event folds s into the event-log hash (and keeps it when KeepLog).
func (r *Run) Event(s string) {
	r.mu.Lock()

	if r.ended {
		r.mu.Unlock()

		return
	}

	h := r.EvHash
	for i := 0; i < len(s); i++ {
		h ^= uint64(s[i])
		h *= 1099511628211
	}

	h ^= 0xff
	h *= 1099511628211
	r.EvHash = h

	if r.KeepLog && len(r.Events) < eventCap {
		r.Events = append(r.Events, s)
	}

	if streamEvents { // development aid: a run that does not end has no event log to read afterwards
		fmt.Fprintf(os.Stderr, "[%v] %s\n", r.Now(), s)
	}
	r.mu.Unlock()
}

var streamEvents = os.Getenv("VERIF_STREAM") != ""

var stackAtStep = int(envInt("VERIF_STACK_AT", 0))

func (r *Run) schedEvent(id int, site string) {
	r.mu.Lock()

	if r.ended { // the teardown of the run is not part of its history
		r.mu.Unlock()

		return
	}

	h := r.EvHash
	h ^= uint64(id)
	h *= 1099511628211

	for i := 0; i < len(site); i++ {
		h ^= uint64(site[i])
		h *= 1099511628211
	}

	r.EvHash = h

	if r.KeepLog && len(r.Events) < eventCap {
		r.Events = append(r.Events, fmt.Sprintf("step %d: task %d %s", r.Steps, id, site))
	}
	r.mu.Unlock()
}

// Now is simulated time since the start of the run.
func (r *Run) Now() time.Duration { return time.Since(r.start) }

// OnEnd registers a cleanup executed (in reverse order) when the run ends.
func (r *Run) OnEnd(f func()) {
	r.mu.Lock()
	r.cleanups = append(r.cleanups, f)
	r.mu.Unlock()
}

// Failed reports whether an (unknown) violation was recorded.
func (r *Run) Failed() bool {
	r.mu.Lock()
	defer r.mu.Unlock()

	return r.viol != nil
}

// Fail records a violation. If (clause, signature) is a listed known finding
// it is counted and Fail returns false so the harness goes on; otherwise the
// run is aborted: on a task goroutine Fail never returns, on the root
// goroutine it panics with a sentinel that Execute recovers.
func (r *Run) Fail(clause, signature, format string, a ...interface{}) bool {
	v := Violation{Clause: clause, Signature: signature, Detail: fmt.Sprintf(format, a...)}

	r.mu.Lock()

	if r.ended && !r.inPost { // a goroutine unwinding after the run: not part of its history (post-bubble oracles are)
		r.mu.Unlock()

		return false
	}

	if r.known != nil && r.known(clause, signature) {
		v.Known = true

		dup := false
		for i := range r.knownHit {
			if r.knownHit[i].Clause == clause && r.knownHit[i].Signature == signature {
				dup = true
			}
		}

		if !dup {
			r.knownHit = append(r.knownHit, v)
		}
		r.mu.Unlock()

		return false
	}

	if r.viol == nil {
		r.viol = &v
	}
	r.mu.Unlock()

	if r.inPost || r.IsRoot() {
		panic(abortRun{})
	}

	select {} //nolint
}

// OnSUTPanic installs the handler for panics that ended a goroutine of the
// system under test (reported through simrt.Recover) or that a harness task
// caught with Guard. Without a handler such a panic is a violation when
// PanicIsViolation is set and harness trouble otherwise.
func (r *Run) OnSUTPanic(f func(site, value, stack string)) { r.sutPanic = f }

func (r *Run) handleSUTPanics() {
	for _, p := range r.TakePanics() {
		switch {
		case r.sutPanic != nil:
			r.sutPanic(p.Site, p.Value, p.Stack)
		case r.taskPanicIsViolation:
			r.Fail("panic", "panic", "a goroutine of the system under test panicked at %s: %s\n%s", p.Site, p.Value, p.Stack)
		default:
			panic(harnessTrouble(fmt.Sprintf("goroutine of the system under test panicked at %s: %s\n%s", p.Site, p.Value, p.Stack)))
		}
	}
}

// Guard runs fn and reports a panic of the code under test to the OnSUTPanic handler instead of ending the task.
func (r *Run) Guard(site string, fn func()) (panicked bool) {
	defer func() {
		if e := recover(); e != nil {
			if _, ok := e.(abortRun); ok {
				panic(e)
			}

			panicked = true

			if r.sutPanic != nil {
				r.sutPanic(site, fmt.Sprint(e), string(debug.Stack()))

				return
			}

			panic(e)
		}
	}()

	fn()

	return false
}

// PanicIsViolation makes a panic inside any harness task a violation with the
// given clause (used where the property says "never a panic").
func (r *Run) PanicIsViolation() { r.taskPanicIsViolation = true }

// Sleep lets simulated time pass for a harness task and then parks it, so
// that the kernel (and not the Go runtime) decides in which order tasks that
// wake at the same simulated instant go on.
func (r *Run) Sleep(d time.Duration) {
	time.Sleep(d)
	r.ForceYield("wake")
}

var eventCap = 4000

// SetEventCap raises the number of event lines kept per run (development aid).
func SetEventCap(n int) { eventCap = n }

// Go starts a harness task.
func (r *Run) Go(name string, fn func()) {
	r.live.Add(1)

	id := simrt.Reserve()

	go func() {
		simrt.Adopt(id)

		defer r.live.Add(-1)

		defer func() {
			if e := recover(); e != nil {
				if _, ok := e.(abortRun); ok {
					return
				}

				s := fmt.Sprintf("task %s panicked: %v\n%s", name, e, debug.Stack())
				if r.taskPanicIsViolation {
					r.mu.Lock()
					if r.viol == nil {
						r.viol = &Violation{Clause: "panic", Signature: "panic", Detail: s}
					}
					r.mu.Unlock()

					return
				}

				r.panicked.CompareAndSwap(nil, &s)
			}
		}()

		r.Register(name)
		r.ForceYield("start:" + name)
		fn()
	}()
}

// Unfinished is the liveness test of the harnesses: harness tasks that have not finished when a scheduling loop
// ended. A loop also ends when its step or simulated-time budget is used up, which says nothing about liveness (a
// big workload, or a clock that ran ahead of it): the run then gets a generous drain - time only moves when nothing
// is runnable - and only what is still unfinished after that is reported.
func (r *Run) Unfinished() bool {
	if r.Live() == 0 {
		return false
	}

	if r.Truncated || r.timedOut {
		r.Probes["budget_exhausted_then_drained"]++
		r.Truncated, r.timedOut = false, false
		r.Sched(SchedOpts{MaxSteps: 20000000, MaxSim: r.Now() + 1000*time.Hour})
	}

	if r.Live() > 0 && os.Getenv("VERIF_DUMP_ON_LIVENESS") != "" { // development aid
		buf := make([]byte, 8<<20)
		n := runtime.Stack(buf, true)
		fmt.Fprintf(os.Stderr, "UNFINISHED: live=%d parked=%d now=%v\n%s\n", r.Live(), len(r.Parked()), r.Now(), buf[:n])
	}

	return r.Live() > 0
}

// Live is the number of harness tasks that have not finished.
func (r *Run) Live() int { return int(r.live.Load()) }

// Try runs fn on the root goroutine and reports false if it would have
// blocked on a simulated lock held by a parked task.
func (r *Run) Try(fn func()) (ok bool) {
	defer func() {
		if e := recover(); e != nil {
			if _, is := e.(simrt.ErrWouldBlock); is {
				ok = false

				return
			}

			panic(e)
		}
	}()

	fn()

	return true
}

// SchedOpts controls one scheduling loop.
type SchedOpts struct {
	MaxSteps  int
	MaxSim    time.Duration // stop once the run's simulated time exceeds it (0: no limit)
	ClockDen  int           // 1/ClockDen chance of moving the clock although tasks are parked (0: never)
	Quanta    []time.Duration
	Until     func() bool // evaluated at quiescence; stop when true
	Invariant func()      // evaluated at quiescence after every step
	KeepGoing bool        // do not stop when every harness task is done (run until Until/MaxSim)
	// Stick > 1: keep running the task that ran last with probability
	// (Stick-1)/Stick before choosing uniformly (finds interleavings that need
	// one task to make many uninterrupted steps inside another's window).
	Stick int
	// PCT > 0: probabilistic concurrency testing (Burckhardt et al., ASPLOS 2010) instead of the random walk: every
	// task gets a random priority when it is first seen, the parked task with the highest priority runs, and at
	// PCT-1 tape-chosen steps the running task drops below all others. An ordering bug of depth d (d ordering
	// constraints between tasks) is hit with probability >= 1/(n*k^(d-1)) per run, where a random walk needs a
	// long run of lucky picks (e.g. "the job submitted last finishes first").
	PCT int
}

// DrawStick draws a per-run stickiness for SchedOpts.Stick.
func (r *Run) DrawStick() int { return []int{1, 1, 3, 8}[r.Draw("stick", 0, 3)] }

var defaultQuanta = []time.Duration{
	time.Millisecond, 10 * time.Millisecond, 50 * time.Millisecond, 300 * time.Millisecond,
	time.Second, 3 * time.Second, 10 * time.Second, 40 * time.Second,
}

// Sched runs the scheduler loop on the root goroutine.
func (r *Run) Sched(o SchedOpts) {
	if o.MaxSteps == 0 {
		o.MaxSteps = 5000
	}

	if len(o.Quanta) == 0 {
		o.Quanta = defaultQuanta
	}

	idle := 0
	steps := 0

	for {
		synctest.Wait()

		if r.Failed() {
			panic(abortRun{})
		}

		if p := r.panicked.Load(); p != nil {
			panic(harnessTrouble(*p))
		}

		r.handleSUTPanics()

		if o.Invariant != nil {
			r.Try(o.Invariant)
		}

		if o.Until != nil {
			stop := false

			r.Try(func() { stop = o.Until() })

			if stop {
				return
			}
		}

		if !o.KeepGoing && r.Live() == 0 {
			return
		}

		if o.MaxSim > 0 && r.Now() >= o.MaxSim {
			r.timedOut = r.Live() > 0 && !o.KeepGoing

			return
		}

		ps := r.Parked()
		if len(ps) == 0 {
			idle++
			if idle > 20000 {
				r.Stalled = true

				return
			}

			q := o.Quanta[r.Choose(len(o.Quanta))]
			r.schedEvent(0, "clock")
			time.Sleep(q)

			if idle&255 == 0 {
				progress.Add(1)
			}

			continue
		}

		idle = 0
		steps++
		r.Steps++

		if stackAtStep > 0 && r.Steps == stackAtStep { // development aid
			buf := make([]byte, 16<<20)
			n := runtime.Stack(buf, true)
			fmt.Fprintf(os.Stderr, "STACKS at step %d:\n%s\n", r.Steps, buf[:n])
		}

		if r.Steps&1023 == 0 {
			progress.Add(1) // the watchdog watches the kernel loop, not the length of a run
		}

		if steps > o.MaxSteps {
			r.Truncated = true

			return
		}

		if o.ClockDen > 0 && r.Choose(o.ClockDen) == o.ClockDen-1 {
			q := o.Quanta[r.Choose(len(o.Quanta))]
			r.schedEvent(0, "clock")
			time.Sleep(q)

			continue
		}

		// order: the task that ran last first (choice 0 = no context switch),
		// the others by task id
		for i := range ps {
			if ps[i].Task.ID == r.lastTask {
				q := ps[i]
				copy(ps[1:i+1], ps[:i])
				ps[0] = q

				break
			}
		}

		var p *simrt.Parked

		if o.PCT > 0 {
			p = r.pickPCT(ps, o.PCT)
		} else if o.Stick > 1 && len(ps) > 1 && ps[0].Task.ID == r.lastTask && r.Choose(o.Stick) != o.Stick-1 {
			p = ps[0]
		} else {
			p = ps[r.Choose(len(ps))]
		}

		r.lastTask = p.Task.ID
		r.schedEvent(p.Task.ID, p.Site)
		r.Release(p)
	}
}

func (r *Run) pickPCT(ps []*simrt.Parked, depth int) *simrt.Parked {
	if r.prio == nil {
		r.prio = map[int]int{}
		r.pctLow = -1

		for i := 1; i < depth; i++ {
			r.pctChange = append(r.pctChange, r.Steps+1+r.Choose(3000))
		}
	}

	var best *simrt.Parked

	for _, p := range ps {
		if _, ok := r.prio[p.Task.ID]; !ok {
			r.prio[p.Task.ID] = 1 + r.Choose(1<<20)
		}

		if best == nil || r.prio[p.Task.ID] > r.prio[best.Task.ID] || (r.prio[p.Task.ID] == r.prio[best.Task.ID] && p.Task.ID < best.Task.ID) {
			best = p
		}
	}

	for _, at := range r.pctChange {
		if at == r.Steps {
			r.prio[best.Task.ID] = r.pctLow
			r.pctLow--
		}
	}

	return best
}

// Do runs fn as a harness task to completion without consuming the tape:
// at every step the most recently created parked task (fn itself or a helper
// goroutine it spawned) is released; older background tasks only run when fn
// cannot proceed without them. Use it for sequential harness phases that call
// code which spawns goroutines or waits on channels (the root goroutine must
// never block on a parked task).
func (r *Run) Do(name string, fn func()) {
	done := false

	r.Go(name, func() {
		fn()
		done = true
	})

	idle := 0

	for i := 0; i < 400000000; i++ {
		synctest.Wait()

		if r.Failed() {
			panic(abortRun{})
		}

		if p := r.panicked.Load(); p != nil {
			panic(harnessTrouble(*p))
		}

		r.handleSUTPanics()

		if done {
			return
		}

		ps := r.Parked()
		if len(ps) == 0 {
			idle++
			if idle > 100000 {
				panic(harnessTrouble("Do(" + name + "): no progress"))
			}

			time.Sleep(time.Millisecond)

			continue
		}

		idle = 0
		r.Steps++

		if r.Steps&1023 == 0 {
			progress.Add(1)
		}

		p := ps[len(ps)-1]
		r.schedEvent(p.Task.ID, p.Site)
		r.Release(p)
	}

	panic(harnessTrouble("Do(" + name + "): step limit"))
}

// Settle lets everything that is runnable run, releasing parked tasks in
// first-choice order, until nothing is parked (used in clean-up paths).
func (r *Run) Settle(max int) {
	for i := 0; i < max; i++ {
		synctest.Wait()

		ps := r.Parked()
		if len(ps) == 0 {
			return
		}

		r.Release(ps[0])
	}
}

type harnessTrouble string

// Outcome of one executed run.
type Outcome struct {
	Violation *Violation
	Known     []Violation
	Trouble   string
	Run       *Run
}

// Execute runs the harness once inside a fresh bubble.
func Execute(t synctestT, h *Harness, seed, idx uint64, tier string, tape *Tape, keepLog bool, known func(string, string) bool) (out Outcome) {
	r := &Run{
		ID: h.ID, Tier: tier, Seed: seed, Index: idx, Tape: tape, KeepLog: keepLog,
		Faults: map[string]int{}, Probes: map[string]int{}, known: known,
	}
	out.Run = r

	func() {
		defer func() {
			// the end-of-bubble "blocked goroutines remain" panic
			if e := recover(); e != nil {
				s := fmt.Sprint(e)
				if !isDeadlockPanic(s) {
					out.Trouble = "panic outside run: " + s + "\n" + string(debug.Stack())
				}
			}
		}()

		runBubble(t, func() {
			k := simrt.NewKernel(seed)
			r.Kernel = k
			k.Trace = keepLog
			r.start = time.Now()

			simrt.Attach(k)

			defer func() {
				e := recover()

				r.SimTime = time.Since(r.start)

				r.mu.Lock()
				r.ended = true
				r.mu.Unlock()

				if k.AdoptMiss > 0 {
					r.Probes["task_id_by_arrival_order"] += k.AdoptMiss
				}

				// clean-ups run with the kernel still attached so that close
				// paths taking simulated locks work; tasks parked meanwhile
				// are released in order.
				func() {
					defer func() {
						if e2 := recover(); e2 != nil && e == nil {
							if _, ok := e2.(simrt.ErrWouldBlock); !ok {
								e = e2
							}
						}
					}()

					for i := len(r.cleanups) - 1; i >= 0; i-- {
						f := r.cleanups[i]
						r.Try(f)
					}
				}()

				// what is still parked unwinds and exits (and frees what it holds)
				func() {
					defer func() { _ = recover() }()

					k.Kill()
					synctest.Wait()
				}()

				simrt.Detach(k)

				switch v := e.(type) {
				case nil:
				case abortRun:
				case harnessTrouble:
					out.Trouble = string(v)
				default:
					out.Trouble = fmt.Sprintf("harness panic: %v\n%s", e, debug.Stack())
				}
			}()

			h.Run(r)

			if p := r.panicked.Load(); p != nil {
				panic(harnessTrouble(*p))
			}

			r.handleSUTPanics()
		})
	}()

	if out.Trouble == "" && r.viol == nil {
		r.inPost = true

		func() {
			defer func() {
				if e := recover(); e != nil {
					if _, ok := e.(abortRun); !ok {
						out.Trouble = fmt.Sprintf("post-bubble panic: %v\n%s", e, debug.Stack())
					}
				}
			}()

			for _, f := range r.post {
				f()
			}
		}()
	}

	r.mu.Lock()
	out.Violation = r.viol
	out.Known = r.knownHit
	r.mu.Unlock()

	return out
}

// isDeadlockPanic recognises only the benign end-of-bubble panic (goroutines
// of the run left parked after the root returned). "all goroutines in bubble
// are blocked" means the root goroutine itself blocked on a parked task during
// the run: that is harness trouble and must never pass as a clean run.
func isDeadlockPanic(s string) bool {
	return contains(s, "main bubble goroutine has exited")
}

func contains(s, sub string) bool {
	for i := 0; i+len(sub) <= len(s); i++ {
		if s[i:i+len(sub)] == sub {
			return true
		}
	}

	return false
}

// Harness is a registered simulation.
type Harness struct {
	ID  string
	Run func(r *Run)
	// Components for the evidence file.
	Real, Stub  []string
	Rule        string // how cases are generated and what counts as distinct/non-trivial
	Assumptions []string
	// Setup runs once per worker process before the first run, outside any
	// simulation (for what cannot be created inside one, e.g. a listener).
	Setup func()
}

var registry = map[string]*Harness{}

func Register(h *Harness) { registry[h.ID] = h }

func Lookup(id string) *Harness { return registry[id] }

func IDs() []string {
	var ids []string
	for k := range registry {
		ids = append(ids, k)
	}

	sort.Strings(ids)

	return ids
}
