package simkit

import (
	"testing"
	"testing/synctest"
)

type synctestT = *testing.T

func runBubble(t *testing.T, f func()) {
	synctest.Test(t, func(*testing.T) { f() })
}
