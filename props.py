# property id -> harness group (a Go package under /verif/harness), level, simulation budget (s per worker),
# and the MANIFEST texts. MANIFEST.json is generated from this table by gen_manifest.py.
def P(group, text, note, technique, level="exploration", quick=25, thorough=600, ref="4"):
    return {"group": group, "level": level, "budget": {"quick": quick, "thorough": thorough},
            "text": text, "note": note, "technique": technique, "ref": ref}


SIM = "deterministic simulation (testing/synctest bubble + seeded cooperative scheduler over a rewritten scratch copy)"

PROPS = {
    "C32": P("utilh",
             "Seeded search over client interleavings at every simulated lock acquire/release of the real util.LockedMap implementations (single, sharded 2..64, deep sharded) and util.Locked; every recorded history is checked by porcupine against a sequential map/value model and Len() is compared with the key count after all clients finished. A clean batch is evidence over the sampled schedules, not proof.",
             "trusted: porcupine v1.3.0, the sequential model in harness/utilh/c32.go, simrt lock replacements having sync.Mutex/RWMutex semantics; Len() is only checked at quiescence (as the statement says); two genuine defects are listed in known_findings.json",
             SIM + "; linearizability checking of recorded histories with porcupine"),
    "C33": P("utilh",
             "Seeded search over interleavings of job goroutines, producer, canceller and fake-clock sleeps of the real job workers and BatchWork; oracle over the recorded history: every accepted job ran exactly once, Wait returned after all of them, the returned error is the first in kernel order, BatchWork visited every index once batch by batch with pref before the jobs; bounded liveness (returns within the step budget).",
             "trusted: harness bookkeeping of job start/end by kernel sequence numbers; x/sync/semaphore runs as shipped",
             SIM + "; history oracle (exactly-once, ordering, first-error, bounded liveness)"),
    "C34": P("utilh",
             "Seeded search over interleavings of the real SimpleTimers loop (on the fake clock), its worker jobs and 1-3 clients calling New/StopTimers/StopOthers/StopAllTimers with reused ids; oracle over the recorded history: no callback start after a covering stop returned, a live timer is removed only by a covering stop or by itself, no callback before its interval elapsed.",
             "trusted: harness bookkeeping by kernel sequence numbers and fake-clock stamps; preemption points are lock/channel operations and harness callbacks",
             SIM + "; history oracle on the fake clock"),
    "C24": P("storeh",
             "Seeded search over interleavings of 2-4 clients calling SetBallot/SetProposal/lookups on colliding keys of a real TempPool over real goleveldb (memory storage); history checked with porcupine against a write-once register per key; quiescent reads stable, byte-identical, consistent by hash and by point, unchanged after re-creating the pool; clean-up daemon run on the fake clock must only remove entries at least the configured depth (read from the pool) below the newest height.",
             "trusted: porcupine, harness identification of returned objects by bytes; goleveldb runs as shipped on memory storage",
             SIM + "; porcupine write-once-register model + quiescent invariants"),
    "C22": P("storeh",
             "Seeded search over operation-pool histories (SetOperation with re-signed duplicates of a fact, OperationHashes with random limits and reject-set filters, re-adds, pool restarts) on a real TempPool over goleveldb, sequentially and with 2-3 concurrent clients; every result is judged against the statement: at most L entries, distinct operations and facts, stored, passing the filter, never a previously filtered-out operation, most recently added operation per fact.",
             "trusted: harness bookkeeping of adds and filter decisions; recency by the fake clock",
             SIM + "; per-call reference oracle over the recorded history"),
    "C23": P("storeh",
             "Seeded search over histories of expel-operation pool calls on a real TempPool over goleveldb: set, traverse, lookup, remove by height, remove by fact, restart, and sweeps over every height and node; each answer is compared for exact set equality with an interval model.",
             "trusted: the interval model in harness/storeh/c23.go",
             SIM + "; reference-model comparison after every operation"),
    "C25": P("storeh",
             "Seeded search over histories of prefix-storage calls by 2-4 tenants with adversarial prefixes on one real leveldb Storage over the simulated disk, including injected write errors inside batches, closing a tenant, and clean restarts; after every step the whole raw storage is compared with a sorted-map model. A second population runs tenants concurrently under the seeded scheduler and compares each tenant's view with its own model.",
             "trusted: the sorted-map model; goleveldb runs as shipped over simdisk",
             SIM + "; reference-model comparison after every step, fault injection on the simulated disk"),
    "C19": P("storeh",
             "Seeded search over database histories (block writes, MergeAllPermanent, the real merge ticker and temp clean-up on the fake clock, RemoveBlocks) on the real Center/LeveldbPermanent/LeveldbBlockWrite/TempLeveldb stack over goleveldb; after every writer step every read listed in the statement is compared exactly with a model that keeps all committed blocks; concurrent readers under the seeded scheduler must read values the model held between invoke and return and never an older state than one already returned.",
             "trusted: the committed-blocks model in harness/storeh/dbsys.go; dummy block maps",
             SIM + "; reference-model comparison at quiescence and interval-based check of concurrent reads"),
    "C20": P("storeh",
             "For every generated history every quiescent close/reopen point (after each block, after each merge) is enumerated: all object reads, all raw-bytes reads (LastBlockMapBytes, BlockMapBytes, LastSuffrageProofBytes, SuffrageProofBytes, StateBytes), policy and pool contents are compared byte for byte before closing and after re-opening the storage with launch.LoadDatabase's constructor sequence on the simulated disk. Histories themselves are sampled by seed.",
             "trusted: simdisk clean-close model (all written bytes survive); the reopen sequence mirrors launch.LoadDatabase",
             SIM + "; enumeration of all quiescent restart points per history on the simulated disk",
             level="fault_enumeration"),
    "C21": P("storeh",
             "For every generated history (blocks with few, >128 and >333 states; permanent merges whose parallel batch order the seeded scheduler decides) every disk-operation index inside every block-write and permanent-merge phase is a crash point in three modes (process crash, torn write, power loss); the simulated disk is rebuilt at that point, the storage re-opened with launch's sequence, and every read must equal the chain up to the visible last height, with acknowledged blocks surviving process crashes. Enumeration is exhaustive per history up to the point budget, tape-sampled beyond (reported in the evidence).",
             "trusted: simdisk crash models; goleveldb recovery runs as shipped; a failed reopen is counted, not judged",
             SIM + "; crash-point enumeration over the simulated disk's operation log",
             level="fault_enumeration"),
}

NOT_APPLICABLE = {
    "C01": "vote tally is a pure function of (quorum, threshold, vote multiset): no schedule, clock, I/O or second party for a simulator to own; input enumeration is the right tool, not simulation",
    "C02": "required vote count is pure arithmetic over an (n,t) grid; nothing to schedule or fault",
    "C12": "fixed-tree commitment and proofs are pure functions of tree bytes; the quantifier is over tree shapes and single-field mutations",
    "C13": "SuffrageProof.IsValid/Prove is a pure predicate over a proof value and a previous state; forged proofs are input construction, not faults or schedules",
    "C27": "encode/decode round trip is a pure per-object function; moreover under go1.26.8 (needed for testing/synctest) sonic runs its encoding/json fallback, not the shipped JIT path",
    "C28": "signature/fact-hash validation is a pure per-object predicate over single-field mutations and network-id swaps",
    "C31": "hint parsing is string processing and CompatibleSet is a single-threaded unsynchronised table; histories are sequential with no clock, I/O or fault",
    "C35": "ACL precedence is a pure decision function over a small table; exhaustive tables are enumeration, not simulation",
}
