#!/usr/bin/env python3
"""Runs the pinned baseline command in /repo and reports stable_pass tests that no longer pass."""
import json, subprocess, sys, os
b = json.load(open("/root/.vp/BASELINE.json"))
env = dict(os.environ, GOFLAGS="-mod=mod", GOPROXY="off", GOSUMDB="off")
p = subprocess.run("cd /repo && go test -mod=mod -json -vet=off -count=1 -timeout 25m ./...", shell=True, env=env,
                   stdout=subprocess.PIPE, stderr=subprocess.DEVNULL, text=True)
passed = set()
for line in p.stdout.splitlines():
    try:
        e = json.loads(line)
    except Exception:
        continue
    if e.get("Action") == "pass" and e.get("Test"):
        passed.add("%s::%s" % (e["Package"], e["Test"]))
missing = [t for t in b["stable_pass"] if t not in passed]
print("stable_pass:", len(b["stable_pass"]), "passed now:", len(passed), "missing:", len(missing))
for t in missing[:40]:
    print("  MISSING", t)
sys.exit(1 if missing else 0)
