#!/bin/bash
# development aid: tools_seeded.sh <agent-out-dir> <PROP> <name> [check args...]
#   verifies a seeded change independently (fresh clone of /repo under /tmp/seedchk): the patch applies, the tree builds,
#   all test binaries compile, the demo fails with the patch and passes without it, pinned util suite when util/ is touched;
#   then runs ./check <PROP> against the patched clone (VERIF_REPO) without touching /repo or the evidence.
set -u
export GOFLAGS=-mod=mod GOPROXY=off GOSUMDB=off GOTOOLCHAIN=local
OUT=$1; PROP=$2; NAME=$3; shift 3
W=/tmp/seedchk/$NAME; rm -rf $W; mkdir -p /tmp/seedchk; git clone -q /repo $W || exit 3
cd $W
git apply --check $OUT/patch.diff || { echo "PATCH DOES NOT APPLY"; exit 3; }
# place demo files
DEMO=$(ls $OUT/*_test.go 2>/dev/null | head -1)
DEMORUN=$(grep -o 'go test .*' $OUT/DEMO.txt | grep -v 'util/\.\.\.' | head -1 | sed 's/`.*//')
DEMODIR=$(echo "$DEMORUN" | grep -o '\./[a-z_/]*' | tail -1 | sed 's|^\./||; s|/$||')
echo "demo: $DEMO -> $DEMODIR ; run: $DEMORUN"
if [ -n "$DEMO" ] && [ -n "$DEMODIR" ]; then
  cp $OUT/*_test.go $W/$DEMODIR/
  ( cd $W && eval "$DEMORUN" > /tmp/seedchk/$NAME.demo-clean.log 2>&1 ); echo "demo without patch: rc=$?"
fi
git apply $OUT/patch.diff
go build ./... || { echo "BUILD FAILS"; exit 3; }
go test -tags test -vet=off -count=1 -run '^$' ./... > /tmp/seedchk/$NAME.compile.log 2>&1 || { echo "TEST COMPILE FAILS"; tail -5 /tmp/seedchk/$NAME.compile.log; }
if [ -n "$DEMO" ] && [ -n "$DEMODIR" ]; then
  ( cd $W && eval "$DEMORUN" > /tmp/seedchk/$NAME.demo-patched.log 2>&1 ); echo "demo with patch: rc=$?"
fi
if git diff --name-only | grep -q '^util/'; then
  go test -vet=off -count=1 ./util/... > /tmp/seedchk/$NAME.util.log 2>&1; echo "util suite rc=$? ($(grep -c '^ok' /tmp/seedchk/$NAME.util.log) ok, $(grep -c '^FAIL' /tmp/seedchk/$NAME.util.log) FAIL lines)"
fi
rm -f $W/$DEMODIR/zz_demo_test.go 2>/dev/null
[ -n "${SKIP_CHECK:-}" ] && exit 0
mkdir -p /tmp/seedchk/replays; cd /verif && VERIF_REPLAY_DIR=/tmp/seedchk/replays VERIF_REPO=$W ./check $PROP --no-evidence "$@" 2>&1 | tail -8 | cut -c1-1200
echo "check rc=${PIPESTATUS[0]}"
