module instrument

go 1.22
