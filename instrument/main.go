// instrument rewrites a scratch copy of spikeekips/mitum in place so that the
// deterministic simulator owns lock hand-off, channel rendezvous, goroutine
// start and randomness (see DESIGN.md 2.3). It works on syntax only (go/ast,
// byte-offset edits) so it keeps working on modified trees, keeps every
// original line on its original line number, and refuses to touch anything
// that is not a marked scratch directory.
package main

import (
	"fmt"
	"go/ast"
	"go/parser"
	"go/token"
	"os"
	"path/filepath"
	"sort"
	"strconv"
	"strings"
)

const marker = ".verif-scratch"

type edit struct {
	off  int
	del  int
	text string
	seq  int
}

func main() {
	if len(os.Args) != 2 {
		fmt.Fprintln(os.Stderr, "usage: instrument <absolute scratch dir>")
		os.Exit(2)
	}

	root := filepath.Clean(os.Args[1])
	if !filepath.IsAbs(root) {
		fatal("scratch dir must be absolute")
	}

	for _, bad := range []string{"/repo", "/verif"} {
		if root == bad || strings.HasPrefix(root, bad+"/") {
			fatal("refusing to rewrite under " + bad)
		}
	}

	if _, err := os.Stat(filepath.Join(root, marker)); err != nil {
		fatal("marker file missing in " + root)
	}

	var nfiles, nedits int

	err := filepath.Walk(root, func(path string, info os.FileInfo, err error) error {
		if err != nil {
			return err
		}

		rel, _ := filepath.Rel(root, path)

		if info.IsDir() {
			base := filepath.Base(path)
			if rel != "." && (strings.HasPrefix(base, ".") || rel == "simrt" || rel == "simkit" || rel == "vh" || rel == "example") {
				return filepath.SkipDir
			}

			return nil
		}

		if !strings.HasSuffix(path, ".go") || strings.HasSuffix(path, "_test.go") || strings.HasSuffix(path, "_verif.go") {
			return nil
		}

		n, err := rewrite(path, rel)
		if err != nil {
			return fmt.Errorf("%s: %w", rel, err)
		}

		if n > 0 {
			nfiles++
			nedits += n
		}

		return nil
	})
	if err != nil {
		fatal(err.Error())
	}

	fmt.Printf("instrument: %d files, %d edits\n", nfiles, nedits)
}

func fatal(s string) {
	fmt.Fprintln(os.Stderr, "instrument:", s)
	os.Exit(2)
}

func rewrite(path, rel string) (int, error) {
	src, err := os.ReadFile(path)
	if err != nil {
		return 0, err
	}

	fset := token.NewFileSet()

	f, err := parser.ParseFile(fset, path, src, parser.SkipObjectResolution)
	if err != nil {
		return 0, err
	}

	off := func(p token.Pos) int { return fset.Position(p).Offset }
	line := func(p token.Pos) int { return fset.Position(p).Line }

	var edits []edit

	seq := 0
	add := func(o, del int, text string) {
		seq++
		edits = append(edits, edit{off: o, del: del, text: text, seq: seq})
	}

	site := func(kind string, p token.Pos) string {
		return "simrt.Yield(" + strconv.Quote(kind+"@"+rel+":"+strconv.Itoa(line(p))) + ")"
	}

	usesSimrt := false
	syncLeft := 0

	// 1. type references and remaining uses of sync
	ast.Inspect(f, func(n ast.Node) bool {
		se, ok := n.(*ast.SelectorExpr)
		if !ok {
			return true
		}

		id, ok := se.X.(*ast.Ident)
		if !ok || id.Name != "sync" {
			return true
		}

		switch se.Sel.Name {
		case "Mutex", "RWMutex", "Once":
			add(off(id.Pos()), len("sync"), "simrt")

			usesSimrt = true
		default:
			syncLeft++
		}

		return true
	})

	// 2. yields
	var doList func(list []ast.Stmt)

	doList = func(list []ast.Stmt) {
		for _, st := range list {
			switch s := st.(type) {
			case *ast.SendStmt:
				add(off(s.Pos()), 0, site("send", s.Pos())+"; ")

				usesSimrt = true
			case *ast.ExprStmt:
				if u, ok := s.X.(*ast.UnaryExpr); ok && u.Op == token.ARROW {
					add(off(s.End()), 0, "; "+site("recv", s.Pos()))

					usesSimrt = true
				}
			case *ast.AssignStmt:
				if len(s.Rhs) == 1 {
					if u, ok := s.Rhs[0].(*ast.UnaryExpr); ok && u.Op == token.ARROW {
						add(off(s.End()), 0, "; "+site("recv", s.Pos()))

						usesSimrt = true
					}
				}
			}
		}
	}

	ast.Inspect(f, func(n ast.Node) bool {
		switch s := n.(type) {
		case *ast.BlockStmt:
			doList(s.List)
		case *ast.CaseClause:
			doList(s.Body)
		case *ast.CommClause:
			doList(s.Body)

			if s.Comm != nil { // not default
				add(off(s.Colon)+1, 0, " "+site("select", s.Pos())+";")

				usesSimrt = true
			}
		case *ast.GoStmt:
			if fl, ok := s.Call.Fun.(*ast.FuncLit); ok {
				// a panic in a goroutine of the system under test is reported to the kernel instead of killing the worker
				add(off(fl.Body.Lbrace)+1, 0, " defer simrt.Recover("+strconv.Quote(rel+":"+strconv.Itoa(line(s.Pos())))+"); "+site("go", s.Pos())+";")

				usesSimrt = true
			}
		}

		return true
	})

	// 3. imports
	for _, im := range f.Imports {
		p, _ := strconv.Unquote(im.Path.Value)

		switch p {
		case "sync":
			if syncLeft == 0 && usesSimrt && im.Name == nil {
				add(off(im.Path.Pos()), 0, "_ ")
			}
		case "crypto/rand":
			name := "rand"
			if im.Name != nil {
				name = im.Name.Name
				add(off(im.Name.Pos()), off(im.Path.End())-off(im.Name.Pos()), name+` "github.com/spikeekips/mitum/simrt/srand"`)
			} else {
				add(off(im.Path.Pos()), len(im.Path.Value), name+` "github.com/spikeekips/mitum/simrt/srand"`)
			}
		case "math/rand":
			name := "rand"
			if im.Name != nil {
				name = im.Name.Name
				add(off(im.Name.Pos()), off(im.Path.End())-off(im.Name.Pos()), name+` "github.com/spikeekips/mitum/simrt/smrand"`)
			} else {
				add(off(im.Path.Pos()), len(im.Path.Value), name+` "github.com/spikeekips/mitum/simrt/smrand"`)
			}
		}
	}

	if usesSimrt {
		add(off(f.Name.End()), 0, `; import simrt "github.com/spikeekips/mitum/simrt"`)
	}

	if len(edits) == 0 {
		return 0, nil
	}

	sort.SliceStable(edits, func(i, j int) bool {
		if edits[i].off != edits[j].off {
			return edits[i].off > edits[j].off
		}

		return edits[i].seq > edits[j].seq
	})

	out := src
	if rel == "util/uuid.go" && strings.Contains(string(src), "uuid.NewV4()") {
		// gofrs/uuid reads crypto/rand itself; route it through the seeded shim
		src = append(src, []byte("\nvar verifUUIDGen = uuid.NewGenWithOptions(uuid.WithRandomReader(rand.Reader))\n")...)
		out = src
		i := strings.Index(string(src), "uuid.NewV4()")
		add(i, len("uuid.NewV4()"), "verifUUIDGen.NewV4()")
		sort.SliceStable(edits, func(i, j int) bool {
			if edits[i].off != edits[j].off {
				return edits[i].off > edits[j].off
			}

			return edits[i].seq > edits[j].seq
		})
	}

	for _, e := range edits {
		out = append(out[:e.off:e.off], append([]byte(e.text), out[e.off+e.del:]...)...)
	}

	return len(edits), os.WriteFile(path, out, 0o644)
}
