// instrument rewrites a scratch copy of spikeekips/mitum in place so that the
// deterministic simulator owns lock hand-off, channel rendezvous, goroutine
// start and randomness (see DESIGN.md 2.3). It works on syntax only (go/ast,
// byte-offset edits) so it keeps working on modified trees, keeps every
// original line on its original line number, and refuses to touch anything
// that is not a marked scratch directory.
package main

import (
	"fmt"
	"go/ast"
	"go/parser"
	"go/token"
	"os"
	"path/filepath"
	"sort"
	"strconv"
	"strings"
)

const marker = ".verif-scratch"

type edit struct {
	off  int
	del  int
	text string
	seq  int
}

func main() {
	if len(os.Args) != 2 {
		fmt.Fprintln(os.Stderr, "usage: instrument <absolute scratch dir>")
		os.Exit(2)
	}

	root := filepath.Clean(os.Args[1])
	if !filepath.IsAbs(root) {
		fatal("scratch dir must be absolute")
	}

	for _, bad := range []string{"/repo", "/verif"} {
		if root == bad || strings.HasPrefix(root, bad+"/") {
			fatal("refusing to rewrite under " + bad)
		}
	}

	if _, err := os.Stat(filepath.Join(root, marker)); err != nil {
		fatal("marker file missing in " + root)
	}

	var nfiles, nedits int

	err := filepath.Walk(root, func(path string, info os.FileInfo, err error) error {
		if err != nil {
			return err
		}

		rel, _ := filepath.Rel(root, path)

		if info.IsDir() {
			base := filepath.Base(path)
			if rel != "." && (strings.HasPrefix(base, ".") || rel == "simrt" || rel == "simkit" || rel == "vh" || rel == "example") {
				return filepath.SkipDir
			}

			return nil
		}

		if !strings.HasSuffix(path, ".go") || strings.HasSuffix(path, "_test.go") || strings.HasSuffix(path, "_verif.go") {
			return nil
		}

		n, err := rewrite(path, rel)
		if err != nil {
			return fmt.Errorf("%s: %w", rel, err)
		}

		if n > 0 {
			nfiles++
			nedits += n
		}

		return nil
	})
	if err != nil {
		fatal(err.Error())
	}

	fmt.Printf("instrument: %d files, %d edits\n", nfiles, nedits)
}

// mapRanges lists every range statement over a map with an ordered key type in
// the repository (file, enclosing function, ranged expression), produced once
// with go/types. The rewriter turns them into iteration in key order, so that
// Go's randomised map iteration is not a hidden source of nondeterminism in a
// simulated run. A range statement that is not listed is left alone.
var mapRanges = map[[3]string]bool{
	{"base/vote.go", "FindVoteResult", "count"}:                                  true,
	{"isaac/block.go", "IsValid", "f.items"}:                                     true,
	{"isaac/block/map_json.go", "DecodeJSON", "u.Items"}:                         true,
	{"isaac/block_json.go", "DecodeJSON", "u.Items"}:                             true,
	{"isaac/database/pool.go", "OperationHashes", "facts"}:                       true,
	{"isaac/readers.go", "isInLocalFS", "m"}:                                     true,
	{"isaac/readers.go", "writeItemFiles", "oldbfiles.Items()"}:                  true,
	{"isaac/states/ballotbox.go", "copyVoted", "vr.ballots"}:                     true,
	{"isaac/states/ballotbox.go", "copyVoted", "vr.voted"}:                       true,
	{"isaac/states/ballotbox.go", "countFromBallots", "vr.ballots"}:              true,
	{"isaac/states/ballotbox.go", "sfs", "voted"}:                                true,
	{"isaac/states/ballotbox.go", "sortBallotSignFactsByExpels", "mw"}:           true,
	{"isaac/states/ballotbox.go", "sortBallotSignFactsByExpels", "signfacts"}:    true,
	{"isaac/states/ballotbox.go", "voteproofFromBallot", "vr.vps"}:               true,
	{"isaac/states/states.go", "SetLogging", "st.newHandlers"}:                   true,
	{"isaac/syncer.go", "Actives", "p.nonfixed"}:                                 true,
	{"isaac/syncer.go", "IsInNonFixed", "p.nonfixed"}:                            true,
	{"isaac/syncer.go", "NodeConnInfo", "p.nonfixed"}:                            true,
	{"isaac/syncer.go", "NodeExists", "p.nonfixed"}:                              true,
	{"isaac/syncer.go", "RemoveNonFixedNode", "p.nonfixed"}:                      true,
	{"isaac/syncer.go", "Traverse", "p.nonfixed"}:                                true,
	{"isaac/syncer.go", "pick", "p.nonfixed"}:                                    true,
	{"launch/acl.go", "compareACLUserValues", "a"}:                               true,
	{"launch/cmd/network_block_item_file.go", "downloadBlockItems", "m"}:         true,
	{"launch/local_params.go", "IsValid", "p.handlerTimeouts"}:                   true,
	{"launch/local_params.go", "IsValid", "r.m"}:                                 true,
	{"launch/local_params.go", "IsValid", "rs.rules"}:                            true,
	{"launch/local_params.go", "defaultNetworkParams", "defaultHandlerTimeouts"}: true,
	{"launch/local_params_marshal.go", "marshaler", "p.handlerTimeouts"}:         true,
	{"launch/local_params_marshal.go", "unmarshal", "u.HandlerTimeout"}:          true,
	{"launch/ratelimit_json.go", "MarshalJSON", "m.m"}:                           true,
	{"launch/ratelimit_json.go", "UnmarshalJSON", "u[i]"}:                        true,
	{"util/context.go", "ContextWithValues", "v"}:                                true,
	{"util/hint/set.go", "Traverse", "st.set"}:                                   true,
	{"util/hint/set.go", "Traverse", "st.set[i]"}:                                true,
	{"util/lock.go", "Map", "l.m"}:                                               true,
	{"util/lock.go", "Map", "sm"}:                                                true,
	{"util/lock.go", "Traverse", "l.m"}:                                          true,
	{"util/ps/ps.go", "SetLogging", "ps.m"}:                                      true,
	{"util/ps/ps.go", "names", "ps.m"}:                                           true,
}

func fatal(s string) {
	fmt.Fprintln(os.Stderr, "instrument:", s)
	os.Exit(2)
}

func rewrite(path, rel string) (int, error) {
	src, err := os.ReadFile(path)
	if err != nil {
		return 0, err
	}

	fset := token.NewFileSet()

	f, err := parser.ParseFile(fset, path, src, parser.SkipObjectResolution)
	if err != nil {
		return 0, err
	}

	off := func(p token.Pos) int { return fset.Position(p).Offset }
	line := func(p token.Pos) int { return fset.Position(p).Line }

	var edits []edit

	seq := 0
	add := func(o, del int, text string) {
		seq++
		edits = append(edits, edit{off: o, del: del, text: text, seq: seq})
	}

	site := func(kind string, p token.Pos) string {
		return "simrt.Yield(" + strconv.Quote(kind+"@"+rel+":"+strconv.Itoa(line(p))) + ")"
	}

	usesSimrt := false
	syncLeft := 0

	// 1. type references and remaining uses of sync
	ast.Inspect(f, func(n ast.Node) bool {
		se, ok := n.(*ast.SelectorExpr)
		if !ok {
			return true
		}

		id, ok := se.X.(*ast.Ident)
		if !ok || id.Name != "sync" {
			return true
		}

		switch se.Sel.Name {
		case "Mutex", "RWMutex", "Once":
			add(off(id.Pos()), len("sync"), "simrt")

			usesSimrt = true
		default:
			syncLeft++
		}

		return true
	})

	// 2. yields
	var doList func(list []ast.Stmt)

	doList = func(list []ast.Stmt) {
		for _, st := range list {
			switch s := st.(type) {
			case *ast.SendStmt:
				add(off(s.Pos()), 0, site("send", s.Pos())+"; ")

				usesSimrt = true
			case *ast.ExprStmt:
				if u, ok := s.X.(*ast.UnaryExpr); ok && u.Op == token.ARROW {
					add(off(s.End()), 0, "; "+site("recv", s.Pos()))

					usesSimrt = true
				}
			case *ast.AssignStmt:
				if len(s.Rhs) == 1 {
					if u, ok := s.Rhs[0].(*ast.UnaryExpr); ok && u.Op == token.ARROW {
						add(off(s.End()), 0, "; "+site("recv", s.Pos()))

						usesSimrt = true
					}
				}
			}
		}
	}

	curFunc := ""

	ast.Inspect(f, func(n ast.Node) bool {
		switch s := n.(type) {
		case *ast.FuncDecl:
			curFunc = s.Name.Name
		case *ast.RangeStmt:
			if s.Key == nil || s.Tok != token.DEFINE {
				break
			}

			xs := string(src[off(s.X.Pos()):off(s.X.End())])
			if !mapRanges[[3]string{rel, curFunc, xs}] {
				break
			}

			it := "simrtit" + strconv.Itoa(off(s.Pos()))
			hdr := "for " + it + " := simrt.IterMap(" + xs + "); " + it + ".Next(); {"

			if id, ok := s.Key.(*ast.Ident); ok && id.Name != "_" {
				hdr += " " + id.Name + " := " + it + ".K;"
			}

			if s.Value != nil {
				if id, ok := s.Value.(*ast.Ident); ok && id.Name != "_" {
					hdr += " " + id.Name + " := " + it + ".V;"
				}
			}

			old := src[off(s.Pos()) : off(s.Body.Lbrace)+1]
			hdr += strings.Repeat("\n", strings.Count(string(old), "\n"))

			add(off(s.Pos()), len(old), hdr)

			usesSimrt = true
		case *ast.SelectStmt:
			// which ready case a select takes is decided by the Go runtime: replace it by a seeded choice
			// (receive-only selects, which is every select of the repository)
			var comms []*ast.CommClause

			okSel := len(s.Body.List) > 0
			hasDefault := false

			for _, c := range s.Body.List {
				cc := c.(*ast.CommClause) //nolint:forcetypeassert //...
				comms = append(comms, cc)

				switch cm := cc.Comm.(type) {
				case nil:
					hasDefault = true
				case *ast.ExprStmt:
					if u, ok := cm.X.(*ast.UnaryExpr); !ok || u.Op != token.ARROW {
						okSel = false
					}
				case *ast.AssignStmt:
					if len(cm.Rhs) != 1 || len(cm.Lhs) > 2 {
						okSel = false

						break
					}

					if u, ok := cm.Rhs[0].(*ast.UnaryExpr); !ok || u.Op != token.ARROW {
						okSel = false
					}
				default:
					okSel = false
				}
			}

			if !okSel {
				break
			}

			pre := "simrtc" + strconv.Itoa(off(s.Pos())) + "x"

			var names, exprs []string

			for _, cc := range comms {
				if cc.Comm == nil {
					continue
				}

				var u *ast.UnaryExpr

				var assign string

				i := len(names)
				name := pre + strconv.Itoa(i)

				switch cm := cc.Comm.(type) {
				case *ast.ExprStmt:
					u = cm.X.(*ast.UnaryExpr) //nolint:forcetypeassert //...
				case *ast.AssignStmt:
					u = cm.Rhs[0].(*ast.UnaryExpr) //nolint:forcetypeassert //...
					lhs := string(src[off(cm.Lhs[0].Pos()):off(cm.Lhs[len(cm.Lhs)-1].End())])

					if len(cm.Lhs) == 1 {
						assign = " " + lhs + " " + cm.Tok.String() + " " + name + ".V();"
					} else {
						assign = " " + lhs + " " + cm.Tok.String() + " " + name + ".VOK();"
					}
				}

				names = append(names, name)
				exprs = append(exprs, "simrt.R("+string(src[off(u.X.Pos()):off(u.X.End())])+")")

				old := src[off(cc.Pos()) : off(cc.Colon)+1]
				add(off(cc.Pos()), len(old), "case "+strconv.Itoa(i)+":"+assign+strings.Repeat("\n", strings.Count(string(old), "\n")))
			}

			hdr := "switch "
			if len(names) > 0 {
				hdr += strings.Join(names, ", ") + " := " + strings.Join(exprs, ", ") + "; "
			}

			hdr += "simrt.Select(" + strconv.FormatBool(hasDefault)
			for _, n := range names {
				hdr += ", " + n
			}

			hdr += ") {"

			old := src[off(s.Pos()) : off(s.Body.Lbrace)+1]
			add(off(s.Pos()), len(old), hdr+strings.Repeat("\n", strings.Count(string(old), "\n")))

			if !hasDefault {
				// a select whose clauses all return is a terminating statement; so is a switch with a default
				add(off(s.Body.Rbrace), 0, "default: panic(\"simrt.Select: unreachable\"); ")
			}

			usesSimrt = true
		case *ast.BlockStmt:
			doList(s.List)
		case *ast.CaseClause:
			doList(s.Body)
		case *ast.CommClause:
			doList(s.Body)

			if s.Comm != nil { // not default
				add(off(s.Colon)+1, 0, " "+site("select", s.Pos())+";")

				usesSimrt = true
			}
		case *ast.GoStmt:
			// task ids follow the spawn order, which the schedule decides, and not the order in which the runtime starts goroutines
			if fl, ok := s.Call.Fun.(*ast.FuncLit); ok {
				v := "simrtg" + strconv.Itoa(off(s.Pos()))
				add(off(s.Pos()), 0, v+" := simrt.Reserve(); ")
				// a panic in a goroutine of the system under test is reported to the kernel instead of killing the worker
				add(off(fl.Body.Lbrace)+1, 0, " simrt.Adopt("+v+"); defer simrt.Recover("+strconv.Quote(rel+":"+strconv.Itoa(line(s.Pos())))+"); "+site("go", s.Pos())+";")
			} else {
				add(off(s.Pos()), 0, "simrt.Spawn("+strconv.Quote(rel+":"+strconv.Itoa(line(s.Pos())))+"); ")
			}

			usesSimrt = true
		}

		return true
	})

	// 3. imports
	for _, im := range f.Imports {
		p, _ := strconv.Unquote(im.Path.Value)

		switch p {
		case "sync":
			if syncLeft == 0 && usesSimrt && im.Name == nil {
				add(off(im.Path.Pos()), 0, "_ ")
			}
		case "crypto/rand":
			name := "rand"
			if im.Name != nil {
				name = im.Name.Name
				add(off(im.Name.Pos()), off(im.Path.End())-off(im.Name.Pos()), name+` "github.com/spikeekips/mitum/simrt/srand"`)
			} else {
				add(off(im.Path.Pos()), len(im.Path.Value), name+` "github.com/spikeekips/mitum/simrt/srand"`)
			}
		case "golang.org/x/sync/semaphore":
			// the weighted semaphore is a synchronisation primitive like the locks: its simulator copy yields
			if im.Name != nil {
				add(off(im.Path.Pos()), len(im.Path.Value), `"github.com/spikeekips/mitum/simrt/ssem"`)
			} else {
				add(off(im.Path.Pos()), len(im.Path.Value), `semaphore "github.com/spikeekips/mitum/simrt/ssem"`)
			}
		case "math/rand":
			name := "rand"
			if im.Name != nil {
				name = im.Name.Name
				add(off(im.Name.Pos()), off(im.Path.End())-off(im.Name.Pos()), name+` "github.com/spikeekips/mitum/simrt/smrand"`)
			} else {
				add(off(im.Path.Pos()), len(im.Path.Value), name+` "github.com/spikeekips/mitum/simrt/smrand"`)
			}
		}
	}

	if usesSimrt {
		add(off(f.Name.End()), 0, `; import simrt "github.com/spikeekips/mitum/simrt"`)
	}

	if len(edits) == 0 && rel != "base/pk_priv.go" {
		return 0, nil
	}

	sort.SliceStable(edits, func(i, j int) bool {
		if edits[i].off != edits[j].off {
			return edits[i].off > edits[j].off
		}

		return edits[i].seq > edits[j].seq
	})

	out := src
	if rel == "util/uuid.go" && strings.Contains(string(src), "uuid.NewV4()") {
		// gofrs/uuid reads crypto/rand itself; route it through the seeded shim
		src = append(src, []byte("\nvar verifUUIDGen = uuid.NewGenWithOptions(uuid.WithRandomReader(rand.Reader))\n")...)
		out = src
		i := strings.Index(string(src), "uuid.NewV4()")
		add(i, len("uuid.NewV4()"), "verifUUIDGen.NewV4()")
		sort.SliceStable(edits, func(i, j int) bool {
			if edits[i].off != edits[j].off {
				return edits[i].off > edits[j].off
			}

			return edits[i].seq > edits[j].seq
		})
	}

	if rel == "base/pk_priv.go" && strings.Contains(string(src), "btcec.NewPrivateKey()") {
		// btcec draws the new key from crypto/rand inside the dependency; draw it from the seeded shim instead
		// (any 32 bytes are a key, reduced modulo the group order)
		src = append(src, []byte("\nfunc verifNewPrivateKey() (*btcec.PrivateKey, error) {\n\tvar b [32]byte\n\t_, _ = verifsrand.Read(b[:])\n\tpriv, _ := btcec.PrivKeyFromBytes(b[:])\n\n\treturn priv, nil\n}\n")...)
		out = src
		i := strings.Index(string(src), "btcec.NewPrivateKey()")
		add(i, len("btcec.NewPrivateKey()"), "verifNewPrivateKey()")
		add(off(f.Name.End()), 0, `; import verifsrand "github.com/spikeekips/mitum/simrt/srand"`)
		sort.SliceStable(edits, func(i, j int) bool {
			if edits[i].off != edits[j].off {
				return edits[i].off > edits[j].off
			}

			return edits[i].seq > edits[j].seq
		})
	}

	if len(edits) == 0 {
		return 0, nil
	}

	for i := range edits {
		for j := range edits {
			if i != j && edits[j].del > 0 && edits[i].off > edits[j].off && edits[i].off < edits[j].off+edits[j].del {
				return 0, fmt.Errorf("edit at offset %d lies inside a replaced region at %d+%d", edits[i].off, edits[j].off, edits[j].del)
			}
		}
	}

	for _, e := range edits {
		out = append(out[:e.off:e.off], append([]byte(e.text), out[e.off+e.del:]...)...)
	}

	return len(edits), os.WriteFile(path, out, 0o644)
}
