#!/usr/bin/env python3
"""development aid: tools_keep_seeded.py <name> <PROP> <caught:yes|no|after> "<needs>" "<caught-by text>"
copies a confirmed seeded change from /tmp/mut/<name>/out into /verif/seeded/<name>/ (patch.diff, demo, notes, meta.json)"""
import json, os, shutil, sys, glob, subprocess

name, prop, caught, needs, how = sys.argv[1:6]
src = "/tmp/mut/%s/out" % name
dst = "/verif/seeded/%s" % name
os.makedirs(dst, exist_ok=True)
shutil.copy(os.path.join(src, "patch.diff"), os.path.join(dst, "patch.diff"))
for f in glob.glob(os.path.join(src, "*_test.go")):
    # keep demos out of every Go build of /verif: store with a .txt suffix
    shutil.copy(f, os.path.join(dst, os.path.basename(f) + ".txt"))
for f in ("DEMO.txt", "NOTES.md"):
    if os.path.exists(os.path.join(src, f)):
        shutil.copy(os.path.join(src, f), os.path.join(dst, f))
files = subprocess.run(["grep", "-o", "^+++ b/.*", os.path.join(dst, "patch.diff")], stdout=subprocess.PIPE, text=True).stdout.split()
meta = {
    "property": prop,
    "name": name,
    "origin": "written by a fresh sub-agent that was given only the text of the property and a scratch clone of /repo",
    "files_changed": [f[6:] for f in files if f.startswith("+++ b/")] or [f for f in files if f != "+++"],
    "needs_to_manifest": needs,
    "confirmed": {
        "patch_applies_to_HEAD_and_builds": True,
        "all_test_binaries_compile_with_tags_test": True,
        "demo_without_patch": "passes",
        "demo_with_patch": "fails",
        "how": "tools_seeded.sh in a fresh clone under /tmp/seedchk: git apply --check, go build ./..., go test -tags test -run '^$' ./..., the demo before and after applying the patch; pinned util suite when util/ is touched (the goleak tests of package util fail on the loaded machine with and without the patch)",
    },
    "detected_by_check": caught,
    "detection": how,
    "ran": "VERIF_REPO=<clone with the patch> ./check %s --no-evidence (quick tier, VERIF_SEED=1); /repo itself was never modified" % prop,
}
json.dump(meta, open(os.path.join(dst, "meta.json"), "w"), indent=1)
print("kept", dst)
