#!/bin/bash
# development aid: run the quick (or $1) tier of every claimed property, one line each
cd /verif
TIER=${1:-quick}
for id in $(python3 -c "from props import PROPS; print(' '.join(sorted(PROPS)))"); do
  out=$(./check $id --tier $TIER 2>&1); rc=$?
  echo "== $id rc=$rc $(echo "$out" | grep -c KNOWN-FINDING) known; $(echo "$out" | grep "seed=" | head -1 | cut -c1-160)"
  echo "$out" | grep "VIOLATION\|TROUBLE\|clause=" | cut -c1-400
done
