#!/usr/bin/env python3
"""development aid: rewrites the table of seeded changes in DESIGN.md (between the SEEDED-TABLE markers) from seeded/*/meta.json"""
import glob, json, os, re
V = os.path.dirname(os.path.abspath(__file__))
rows = []
for p in sorted(glob.glob(os.path.join(V, "seeded", "*", "meta.json"))):
    m = json.load(open(p))
    rows.append(m)
def esc(s): return s.replace("|", "/").replace("\n", " ")
out = ["| change | property | file(s) | needs, to manifest | detected | by / what it took |", "|---|---|---|---|---|---|"]
order = {"yes": "at once", "after": "after strengthening", "no": "NOT detected"}
for m in rows:
    out.append("| %s | %s | %s | %s | %s | %s |" % (m["name"], m["property"], ", ".join(m["files_changed"]), esc(m["needs_to_manifest"]), order.get(m["detected_by_check"], m["detected_by_check"]), esc(m["detection"])))
n = len(rows); a = sum(1 for m in rows if m["detected_by_check"] == "yes"); b = sum(1 for m in rows if m["detected_by_check"] == "after"); c = n - a - b
out.append("")
out.append("%d seeded changes kept: %d detected by the check as it stood, %d only after the check was strengthened (what was missing is named in the last column), %d not detected." % (n, a, b, c))
s = open(os.path.join(V, "DESIGN.md")).read()
s = re.sub(r"(<!-- SEEDED-TABLE-BEGIN -->\n).*?(<!-- SEEDED-TABLE-END -->)", lambda mo: mo.group(1) + "\n".join(out) + "\n" + mo.group(2), s, flags=re.S)
open(os.path.join(V, "DESIGN.md"), "w").write(s)
print(n, a, b, c)
