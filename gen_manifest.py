#!/usr/bin/env python3
import json, os, sys
sys.path.insert(0, os.path.dirname(os.path.abspath(__file__)))
from props import PROPS, NOT_APPLICABLE

claimed = sorted(PROPS)
na = dict(NOT_APPLICABLE)
all_ids = [json.loads(l)["id"] for l in open(os.path.join(os.path.dirname(os.path.abspath(__file__)), "properties.jsonl"))]
for i in all_ids:
    if i not in PROPS and i not in na:
        na[i] = "not claimed yet: the simulation harness designed for it in DESIGN.md section 4 has not been built; no weaker substitute is offered"
m = {
    "version": 1,
    "setup_cmd": "./check --setup",
    "hooks": {
        "guard": "verif",
        "enable": "no hook is committed to /repo: every check copies /repo's working tree to a scratch directory, rewrites the copy (sync.Mutex/RWMutex/Once -> simulator locks, yields at channel operations and goroutine starts, seeded crypto/rand and math/rand), adds //go:build verif overlay files from /verif/overlay, and builds with go1.26.8 -tags 'test verif'",
        "baseline_off_cmd": "cd /repo && GOFLAGS=-mod=mod go test -vet=off -count=1 -timeout 25m ./...",
        "source_commits": [],
        "add_only": True,
    },
    "engines": [{
        "name": "simkit",
        "path": "/verif/simkit",
        "serves_properties": claimed,
        "kind_free_text": "deterministic simulator: one testing/synctest bubble per run (fake clock), cooperative scheduler choosing one parked task per step from a seeded choice tape, simulated locks/disk/network/streams, tape shrinking and replay files",
    }],
    "checks": [],
    "not_applicable": [{"property_id": k, "reason": v} for k, v in sorted(na.items())],
    "notes": "All checks: ./check <ID> --tier quick|thorough; exit 0 held / 1 VIOLATION / 2 harness or build trouble. Known findings in known_findings.json. See DESIGN.md.",
}
for pid in claimed:
    p = PROPS[pid]
    m["checks"].append({
        "property_id": pid,
        "quick_cmd": "./check %s --tier quick" % pid,
        "thorough_cmd": "./check %s --tier thorough" % pid,
        "evidence_file": "/verif/evidence/%s.json" % pid,
        "replay_cmd_template": "./check %s --replay {path}" % pid,
        "engine": "simkit",
        "level_claimed": {"category": p["level"], "text": p["text"], "design_ref": "DESIGN.md section %s (%s)" % (p["ref"], pid)},
        "level_note": p["note"],
        "technique": p["technique"],
    })
json.dump(m, open(os.path.join(os.path.dirname(os.path.abspath(__file__)), "MANIFEST.json"), "w"), indent=1)
print("claimed", len(claimed), "n/a", len(na))
