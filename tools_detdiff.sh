#!/bin/bash
# development aid: tools_detdiff.sh <ID> <group> — run the same seeds in separate processes with full event dumps and show the first divergence
export GOFLAGS=-mod=mod GOPROXY=off GOSUMDB=off GOTOOLCHAIN=local CGO_ENABLED=0
ID=$1; G=$2; D=/tmp/detdiff-$ID
rm -rf $D; /verif/check --prep $D >/dev/null 2>&1
cd $D && go1.26.8 test -c -tags "test verif" -ldflags=-checklinkname=0 -trimpath -vet=off -o .bin/$G.test ./vh/$G 2>&1 | tail -5
runone() { mkdir -p $1; ( cd $D/.bin; VERIF_PROP=$ID VERIF_TIER=quick VERIF_SEED=$3 VERIF_RUN_FROM=0 VERIF_RUN_STRIDE=1 VERIF_BUDGET_MS=600000 VERIF_OUT=$1/out.json VERIF_KNOWN=/verif/known_findings.json GOMAXPROCS=$2 GODEBUG=asyncpreemptoff=1 VERIF_MAX_RUNS=${RUNS:-40} VERIF_DET=1 VERIF_DUMP=$1 ./$G.test -test.run '^TestWorker$' -test.timeout 1h -test.count 1 > $1/log 2>&1 ); }
for s in 1000 1001 1002 1003; do runone $D/d$s-a 1 $s & runone $D/d$s-b 4 $s & runone $D/d$s-c 1 $s & done; wait
n=0
for s in 1000 1001 1002 1003; do for v in b c; do for f in $D/d$s-a/run-*.log; do b=$D/d$s-$v/$(basename $f); if ! cmp -s $f $b; then n=$((n+1)); [ $n -le 3 ] && { echo "DIFF $v $f"; diff $f $b | head -${LINES_SHOWN:-12}; }; fi; done; done; done
echo "diverging logs: $n"
[ -n "$KEEP" ] || rm -rf $D
