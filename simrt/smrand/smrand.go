// Package smrand stands in for math/rand in the rewritten copy.
package smrand

import "github.com/spikeekips/mitum/simrt"

func Uint32() uint32 { return uint32(simrt.Rand64()) }
func Uint64() uint64 { return simrt.Rand64() }
func Int63() int64   { return int64(simrt.Rand64() >> 1) }
func Int() int       { return int(simrt.Rand64() >> 1) }
func Intn(n int) int {
	if n <= 0 {
		panic("smrand: invalid argument to Intn")
	}

	return int(simrt.Rand64() % uint64(n))
}
func Int63n(n int64) int64 { return int64(simrt.Rand64() % uint64(n)) }
func Float64() float64     { return float64(simrt.Rand64()>>11) / (1 << 53) }
