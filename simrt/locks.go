package simrt

import "sync"

// state shared by the simulated locks. A lock remembers the epoch it was last
// used in; a new run (new epoch) finds it unlocked with fresh channels, so
// package-level locks and objects recycled through sync.Pool never carry a
// channel from one bubble into the next.

// Mutex replaces sync.Mutex in the rewritten copy.
type Mutex struct {
	real   sync.Mutex
	g      sync.Mutex
	epoch  uint64
	locked bool
	wait   chan struct{}
}

func (m *Mutex) reset(k *Kernel) {
	if m.epoch != k.Epoch {
		m.epoch = k.Epoch
		m.locked = false
		m.wait = nil
	}
}

func (m *Mutex) Lock() {
	k := cur.Load()
	if k == nil {
		m.real.Lock()

		return
	}

	root := k.IsRoot()

	for {
		if !root {
			k.yield(k.callerSite("lock"), false)
		}

		m.g.Lock()
		m.reset(k)

		if !m.locked {
			m.locked = true
			m.g.Unlock()

			return
		}

		if root {
			m.g.Unlock()
			k.WouldBlock++

			panic(ErrWouldBlock{Site: "Mutex.Lock"})
		}

		if m.wait == nil {
			m.wait = make(chan struct{})
		}

		w := m.wait
		m.g.Unlock()
		<-w
	}
}

func (m *Mutex) TryLock() bool {
	k := cur.Load()
	if k == nil {
		return m.real.TryLock()
	}

	m.g.Lock()
	defer m.g.Unlock()
	m.reset(k)

	if m.locked {
		return false
	}

	m.locked = true

	return true
}

func (m *Mutex) Unlock() {
	k := cur.Load()
	if k == nil {
		m.real.Unlock()

		return
	}

	m.g.Lock()
	m.reset(k)

	if !m.locked {
		m.g.Unlock()

		panic("simrt: unlock of unlocked Mutex")
	}

	m.locked = false

	if m.wait != nil {
		close(m.wait)
		m.wait = nil
	}

	m.g.Unlock()

	// a preemption point after the critical section: what follows an unlock
	// (an atomic counter update, a second lock) can be overtaken by others.
	k.yield(k.callerSite("unlock"), false)
}

// RWMutex replaces sync.RWMutex.
type RWMutex struct {
	real    sync.RWMutex
	g       sync.Mutex
	epoch   uint64
	writer  bool
	readers int
	wait    chan struct{}
}

func (m *RWMutex) reset(k *Kernel) {
	if m.epoch != k.Epoch {
		m.epoch = k.Epoch
		m.writer = false
		m.readers = 0
		m.wait = nil
	}
}

func (m *RWMutex) acquire(k *Kernel, write bool, site string) {
	root := k.IsRoot()

	for {
		if !root {
			k.yield(k.callerSite(site), false)
		}

		m.g.Lock()
		m.reset(k)

		if write && !m.writer && m.readers == 0 {
			m.writer = true
			m.g.Unlock()

			return
		}

		if !write && !m.writer {
			m.readers++
			m.g.Unlock()

			return
		}

		if root {
			m.g.Unlock()
			k.WouldBlock++

			panic(ErrWouldBlock{Site: "RWMutex." + site})
		}

		if m.wait == nil {
			m.wait = make(chan struct{})
		}

		w := m.wait
		m.g.Unlock()
		<-w
	}
}

func (m *RWMutex) wake() {
	if m.wait != nil {
		close(m.wait)
		m.wait = nil
	}
}

func (m *RWMutex) Lock() {
	k := cur.Load()
	if k == nil {
		m.real.Lock()

		return
	}

	m.acquire(k, true, "lock")
}

func (m *RWMutex) Unlock() {
	k := cur.Load()
	if k == nil {
		m.real.Unlock()

		return
	}

	m.g.Lock()
	m.reset(k)

	if !m.writer {
		m.g.Unlock()

		panic("simrt: unlock of unlocked RWMutex")
	}

	m.writer = false
	m.wake()
	m.g.Unlock()
	k.yield(k.callerSite("unlock"), false)
}

func (m *RWMutex) RLock() {
	k := cur.Load()
	if k == nil {
		m.real.RLock()

		return
	}

	m.acquire(k, false, "rlock")
}

func (m *RWMutex) RUnlock() {
	k := cur.Load()
	if k == nil {
		m.real.RUnlock()

		return
	}

	m.g.Lock()
	m.reset(k)

	if m.readers < 1 {
		m.g.Unlock()

		panic("simrt: runlock of unlocked RWMutex")
	}

	m.readers--
	if m.readers == 0 {
		m.wake()
	}

	m.g.Unlock()
	k.yield(k.callerSite("runlock"), false)
}

func (m *RWMutex) TryLock() bool {
	k := cur.Load()
	if k == nil {
		return m.real.TryLock()
	}

	m.g.Lock()
	defer m.g.Unlock()
	m.reset(k)

	if m.writer || m.readers > 0 {
		return false
	}

	m.writer = true

	return true
}

func (m *RWMutex) TryRLock() bool {
	k := cur.Load()
	if k == nil {
		return m.real.TryRLock()
	}

	m.g.Lock()
	defer m.g.Unlock()
	m.reset(k)

	if m.writer {
		return false
	}

	m.readers++

	return true
}

type rlocker RWMutex

func (r *rlocker) Lock()   { (*RWMutex)(r).RLock() }
func (r *rlocker) Unlock() { (*RWMutex)(r).RUnlock() }

// RLocker mirrors sync.RWMutex.RLocker.
func (m *RWMutex) RLocker() sync.Locker { return (*rlocker)(m) }

// Once replaces sync.Once.
type Once struct {
	real  sync.Once
	m     Mutex
	epoch uint64
	done  bool
}

func (o *Once) Do(f func()) {
	k := cur.Load()
	if k == nil {
		o.real.Do(f)

		return
	}

	o.m.Lock()
	defer o.m.Unlock()

	// a Once that fired outside a run (k == nil path) stays fired through
	// real; inside runs it is per epoch only if it was first used in a run.
	if o.epoch != k.Epoch {
		o.epoch = k.Epoch
		o.done = false
	}

	if o.done {
		return
	}

	defer func() { o.done = true }()

	f()
}
