// Package simrt is the runtime side of the deterministic simulator: the
// primitives that the rewritten copy of mitum calls instead of sync.Mutex,
// sync.RWMutex, sync.Once, plus Yield(). With no kernel attached every
// primitive behaves like the standard library one.
//
// It is copied into the scratch copy of the repository (import path
// github.com/spikeekips/mitum/simrt); it never lives in /repo.
package simrt

import (
	"fmt"
	"runtime"
	"strconv"
	"strings"
	"sync"
	"sync/atomic"
)

// Task is one goroutine known to the kernel.
type Task struct {
	ID      int
	Name    string
	Goid    uint64
	Harness bool // started through Kernel.Go
	Done    bool
	Label   string
}

// Parked is a task waiting at a yield point for the kernel to release it.
type Parked struct {
	Task *Task
	Site string
	ch   chan struct{}
}

// Kernel is the scheduling state shared between the yield points and the
// scheduler loop (package simkit).
type Kernel struct {
	mu       sync.Mutex // real mutex; only ever held for a few instructions
	Epoch    uint64
	RootGoid uint64
	tasks    map[uint64]*Task
	nextID   int
	parked   []*Parked
	dead     bool
	never    chan struct{}
	// Focus: when non-nil, only yield sites for which Focus(site) is true
	// park; the others pass through.
	Focus func(site string) bool
	// Trace: compute caller sites for lock yields (slower; replay/debug).
	Trace bool
	// rng state for the seeded shims (crypto/rand, math/rand)
	rngmu sync.Mutex
	rng   uint64
	// WouldBlock is counted when the root goroutine found a lock held.
	WouldBlock int
	// Panics of goroutines of the system under test (see Recover).
	Panics []GoroutinePanic
}

var (
	cur   atomic.Pointer[Kernel]
	epoch atomic.Uint64
)

// ErrWouldBlock is the panic value raised when the kernel (root) goroutine
// tries to take a simulated lock that a parked task holds.
type ErrWouldBlock struct{ Site string }

func (e ErrWouldBlock) Error() string { return "simrt: root goroutine would block at " + e.Site }

// NewKernel creates a kernel; must be called from inside the bubble by the
// goroutine that will run the scheduler loop.
func NewKernel(seed uint64) *Kernel {
	k := &Kernel{
		Epoch:    epoch.Add(1),
		RootGoid: Goid(),
		tasks:    map[uint64]*Task{},
		never:    make(chan struct{}),
		rng:      seed ^ 0x9e3779b97f4a7c15,
	}

	return k
}

// Attach makes k the current kernel.
func Attach(k *Kernel) { cur.Store(k) }

// Detach marks the kernel dead (every later Yield of a goroutine of this run
// blocks forever) and removes it.
func Detach(k *Kernel) {
	k.mu.Lock()
	k.dead = true
	k.mu.Unlock()
	cur.CompareAndSwap(k, nil)
	epoch.Add(1)
}

// Current returns the attached kernel or nil.
func Current() *Kernel { return cur.Load() }

// Goid returns the id of the calling goroutine.
func Goid() uint64 {
	var buf [40]byte

	n := runtime.Stack(buf[:], false)
	// "goroutine 123 ["
	var id uint64

	for i := 10; i < n; i++ {
		c := buf[i]
		if c < '0' || c > '9' {
			break
		}

		id = id*10 + uint64(c-'0')
	}

	return id
}

// Yield parks the calling goroutine until the kernel releases it. No-op
// without a kernel, on the kernel's own goroutine, and for unfocused sites.
func Yield(site string) {
	k := cur.Load()
	if k == nil {
		return
	}

	k.yield(site, false)
}

func (k *Kernel) yield(site string, force bool) {
	g := Goid()
	if g == k.RootGoid {
		return
	}

	k.mu.Lock()

	if k.dead {
		k.mu.Unlock()
		<-k.never
	}

	if !force && k.Focus != nil && !k.Focus(site) {
		k.mu.Unlock()

		return
	}

	t := k.taskForLocked(g)
	p := &Parked{Task: t, Site: site, ch: make(chan struct{})}
	k.parked = append(k.parked, p)
	k.mu.Unlock()

	<-p.ch
}

func (k *Kernel) taskForLocked(g uint64) *Task {
	t, ok := k.tasks[g]
	if !ok {
		k.nextID++
		t = &Task{ID: k.nextID, Goid: g}
		k.tasks[g] = t
	}

	return t
}

// callerSite returns "file:line" of the code that called the lock method when
// site names are needed (a focus filter or tracing is on), else the short kind.
func (k *Kernel) callerSite(kind string) string {
	if k.Focus == nil && !k.Trace {
		return kind
	}

	for skip := 2; skip < 6; skip++ {
		_, file, line, ok := runtime.Caller(skip)
		if !ok {
			break
		}

		if strings.Contains(file, "/simrt/") {
			continue
		}

		if i := strings.Index(file, "mitum/"); i >= 0 {
			file = file[i+6:]
		}

		return kind + "@" + file + ":" + strconv.Itoa(line)
	}

	return kind
}

// Register declares the calling goroutine as a harness task.
func (k *Kernel) Register(name string) *Task {
	g := Goid()

	k.mu.Lock()
	defer k.mu.Unlock()

	t := k.taskForLocked(g)
	t.Name = name
	t.Harness = true

	return t
}

// ForceYield parks even at unfocused sites (used by harness tasks).
func (k *Kernel) ForceYield(site string) { k.yield(site, true) }

// TakeParked returns the parked list (sorted by task id, stable) and clears it.
// Only the scheduler loop calls it, when every other goroutine is blocked.
func (k *Kernel) Parked() []*Parked {
	k.mu.Lock()
	defer k.mu.Unlock()

	ps := k.parked
	// insertion sort by task id: lists are short
	for i := 1; i < len(ps); i++ {
		for j := i; j > 0 && ps[j-1].Task.ID > ps[j].Task.ID; j-- {
			ps[j-1], ps[j] = ps[j], ps[j-1]
		}
	}

	return ps
}

// Release lets one parked task continue.
func (k *Kernel) Release(p *Parked) {
	k.mu.Lock()

	for i := range k.parked {
		if k.parked[i] == p {
			k.parked = append(k.parked[:i:i], k.parked[i+1:]...)

			break
		}
	}

	k.mu.Unlock()
	close(p.ch)
}

// IsRoot reports whether the caller is the kernel's goroutine.
func (k *Kernel) IsRoot() bool { return Goid() == k.RootGoid }

// Dead reports whether the kernel was detached.
func (k *Kernel) Dead() bool {
	k.mu.Lock()
	defer k.mu.Unlock()

	return k.dead
}

// Recover is deferred at the top of every rewritten `go func(){...}()` body.
// With a kernel attached a panic of that goroutine is recorded (the goroutine
// ends, the run goes on and the harness decides what it means); without a
// kernel the panic continues as it would in the shipped code.
func Recover(site string) {
	e := recover()
	if e == nil {
		return
	}

	k := cur.Load()
	if k == nil {
		panic(e)
	}

	buf := make([]byte, 1<<14)
	n := runtime.Stack(buf, false)

	k.mu.Lock()
	k.Panics = append(k.Panics, GoroutinePanic{Site: site, Value: fmt.Sprint(e), Stack: string(buf[:n])})
	k.mu.Unlock()
}

// GoroutinePanic is a panic that ended a goroutine of the system under test.
type GoroutinePanic struct {
	Site  string
	Value string
	Stack string
}

// TakePanics returns and clears the recorded goroutine panics.
func (k *Kernel) TakePanics() []GoroutinePanic {
	k.mu.Lock()
	defer k.mu.Unlock()

	p := k.Panics
	k.Panics = nil

	return p
}

// Rand64 is the tape-independent seeded stream behind the crypto/rand and
// math/rand shims (splitmix64).
func (k *Kernel) Rand64() uint64 {
	k.rngmu.Lock()
	defer k.rngmu.Unlock()

	k.rng += 0x9e3779b97f4a7c15
	z := k.rng
	z = (z ^ (z >> 30)) * 0xbf58476d1ce4e5b9
	z = (z ^ (z >> 27)) * 0x94d049bb133111eb

	return z ^ (z >> 31)
}

var fallbackRng struct {
	sync.Mutex
	s uint64
}

// Rand64 returns the next word of the seeded stream of the current kernel, or
// of a fixed process-wide stream when no kernel is attached.
func Rand64() uint64 {
	if k := cur.Load(); k != nil {
		return k.Rand64()
	}

	fallbackRng.Lock()
	defer fallbackRng.Unlock()

	fallbackRng.s += 0x9e3779b97f4a7c15
	z := fallbackRng.s
	z = (z ^ (z >> 30)) * 0xbf58476d1ce4e5b9
	z = (z ^ (z >> 27)) * 0x94d049bb133111eb

	return z ^ (z >> 31)
}
