// Package simrt is the runtime side of the deterministic simulator: the
// primitives that the rewritten copy of mitum calls instead of sync.Mutex,
// sync.RWMutex, sync.Once, plus Yield(). With no kernel attached every
// primitive behaves like the standard library one.
//
// It is copied into the scratch copy of the repository (import path
// github.com/spikeekips/mitum/simrt); it never lives in /repo.
package simrt

import (
	"cmp"
	"fmt"
	"reflect"
	"runtime"
	"slices"
	"strconv"
	"strings"
	"sync"
	"sync/atomic"
)

// Task is one goroutine known to the kernel.
type Task struct {
	ID      int
	Name    string
	Goid    uint64
	Harness bool // started through Kernel.Go
	Done    bool
	Label   string
	exiting bool   // the run is over and this goroutine is unwinding (see Kernel.Kill)
	selN    uint64 // selects made by this task (see selectStart)
}

// Parked is a task waiting at a yield point for the kernel to release it.
type Parked struct {
	Task *Task
	Site string
	ch   chan struct{}
	die  bool
}

// Kernel is the scheduling state shared between the yield points and the
// scheduler loop (package simkit).
type Kernel struct {
	mu       sync.Mutex // real mutex; only ever held for a few instructions
	Epoch    uint64
	RootGoid uint64
	tasks    map[uint64]*Task
	nextID   int
	parked   []*Parked
	dead     bool
	dying    bool
	never    chan struct{}
	// Focus: when non-nil, only yield sites for which Focus(site) is true
	// park; the others pass through.
	Focus func(site string) bool
	// Trace: compute caller sites for lock yields (slower; replay/debug).
	Trace bool
	// rng state for the seeded shims (crypto/rand, math/rand)
	rngmu sync.Mutex
	rng   uint64
	seed  uint64
	// go statements announced by Spawn whose goroutine has not made its first yield yet, by parent goroutine
	pending map[uint64][]pendingSpawn
	// AdoptMiss counts goroutines that got their task id on arrival (no Spawn matched).
	AdoptMiss int
	// WouldBlock is counted when the root goroutine found a lock held.
	WouldBlock int
	// Panics of goroutines of the system under test (see Recover).
	Panics []GoroutinePanic
}

var (
	cur   atomic.Pointer[Kernel]
	epoch atomic.Uint64
)

// ErrWouldBlock is the panic value raised when the kernel (root) goroutine
// tries to take a simulated lock that a parked task holds.
type ErrWouldBlock struct{ Site string }

func (e ErrWouldBlock) Error() string { return "simrt: root goroutine would block at " + e.Site }

// NewKernel creates a kernel; must be called from inside the bubble by the
// goroutine that will run the scheduler loop.
func NewKernel(seed uint64) *Kernel {
	k := &Kernel{
		Epoch:    epoch.Add(1),
		RootGoid: Goid(),
		tasks:    map[uint64]*Task{},
		never:    make(chan struct{}),
		rng:      seed ^ 0x9e3779b97f4a7c15,
		seed:     seed,
	}

	return k
}

// Attach makes k the current kernel.
func Attach(k *Kernel) { cur.Store(k) }

// Detach marks the kernel dead (every later Yield of a goroutine of this run
// blocks forever) and removes it.
func Detach(k *Kernel) {
	k.mu.Lock()
	k.dead = true
	k.mu.Unlock()
	cur.CompareAndSwap(k, nil)
	epoch.Add(1)
}

// Current returns the attached kernel or nil.
func Current() *Kernel { return cur.Load() }

// Goid returns the id of the calling goroutine.
func Goid() uint64 {
	var buf [40]byte

	n := runtime.Stack(buf[:], false)
	// "goroutine 123 ["
	var id uint64

	for i := 10; i < n; i++ {
		c := buf[i]
		if c < '0' || c > '9' {
			break
		}

		id = id*10 + uint64(c-'0')
	}

	return id
}

// Yield parks the calling goroutine until the kernel releases it. No-op
// without a kernel, on the kernel's own goroutine, and for unfocused sites.
func Yield(site string) {
	k := cur.Load()
	if k == nil {
		return
	}

	k.yield(site, false)
}

func (k *Kernel) yield(site string, force bool) {
	g := Goid()
	if g == k.RootGoid {
		return
	}

	k.mu.Lock()

	if k.dead {
		k.mu.Unlock()
		<-k.never
	}

	if k.dying {
		// the run is over: a goroutine that reaches a yield point ends here (its deferred calls
		// run, and pass through the yield points they meet), so that what it holds is freed
		t := k.taskForLocked(g)
		first := !t.exiting
		t.exiting = true
		k.mu.Unlock()

		if first {
			runtime.Goexit()
		}

		return
	}

	if !force && k.Focus != nil && !k.Focus(site) {
		k.mu.Unlock()

		return
	}

	t := k.taskForLocked(g)
	p := &Parked{Task: t, Site: site, ch: make(chan struct{})}
	k.parked = append(k.parked, p)
	k.mu.Unlock()

	<-p.ch

	if p.die {
		k.mu.Lock()
		first := !t.exiting
		t.exiting = true
		k.mu.Unlock()

		if first {
			runtime.Goexit()
		}
	}
}

// Kill ends the run for every goroutine that is parked or reaches a yield
// point from now on: they exit (running their deferred calls) instead of
// staying blocked for the life of the worker with everything they reference.
func (k *Kernel) Kill() {
	k.mu.Lock()
	k.dying = true
	ps := k.parked
	k.parked = nil
	k.mu.Unlock()

	for _, p := range ps {
		p.die = true
		close(p.ch)
	}
}

func (k *Kernel) taskForLocked(g uint64) *Task {
	t, ok := k.tasks[g]
	if !ok {
		id := k.adoptLocked()
		if id == 0 {
			k.nextID++
			id = k.nextID
			k.AdoptMiss++
		}

		t = &Task{ID: id, Goid: g}
		k.tasks[g] = t
	}

	return t
}

type pendingSpawn struct {
	site string
	id   int
}

// Spawn is called by the spawning goroutine just before a go statement (the
// rewriter inserts it): it reserves the next task id for the goroutine that
// the statement at site creates. Task ids then follow the spawn order, which
// the schedule decides, and not the order in which the Go runtime happens to
// start the new goroutines.
func Spawn(site string) {
	k := cur.Load()
	if k == nil {
		return
	}

	g := Goid()

	k.mu.Lock()
	defer k.mu.Unlock()

	if k.dead {
		return
	}

	k.nextID++

	if k.pending == nil {
		k.pending = map[uint64][]pendingSpawn{}
	}

	k.pending[g] = append(k.pending[g], pendingSpawn{site: site, id: k.nextID})
}

// Reserve returns the next task id, for a goroutine the caller is about to
// create; the new goroutine passes it to Adopt first thing. (Spawn is the
// variant for go statements whose body cannot be given the id.) 0: no kernel.
func Reserve() int {
	k := cur.Load()
	if k == nil {
		return 0
	}

	k.mu.Lock()
	defer k.mu.Unlock()

	if k.dead {
		return 0
	}

	k.nextID++

	return k.nextID
}

// Adopt binds the calling goroutine to a reserved task id.
func Adopt(id int) {
	k := cur.Load()
	if k == nil || id == 0 {
		return
	}

	g := Goid()

	k.mu.Lock()
	defer k.mu.Unlock()

	if _, ok := k.tasks[g]; !ok && !k.dead {
		k.tasks[g] = &Task{ID: id, Goid: g}
	}
}

// adoptLocked finds the id reserved for the calling goroutine: its parent and
// the position of the go statement are read from the "created by" lines of its
// own stack trace. 0: nothing reserved.
func (k *Kernel) adoptLocked() int {
	if len(k.pending) == 0 {
		return 0
	}

	buf := make([]byte, 1<<15)
	n := runtime.Stack(buf, false)
	tr := string(buf[:n])

	i := strings.LastIndex(tr, "\ncreated by ")
	if i < 0 {
		return 0
	}

	tr = tr[i+1:]

	j := strings.Index(tr, " in goroutine ")
	if j < 0 {
		return 0
	}

	var parent uint64

	x := j + len(" in goroutine ")
	for ; x < len(tr) && tr[x] >= '0' && tr[x] <= '9'; x++ {
		parent = parent*10 + uint64(tr[x]-'0')
	}

	l := strings.Index(tr, "\n\t")
	if l < 0 {
		return 0
	}

	file := tr[l+2:]
	if e := strings.IndexAny(file, " \n"); e >= 0 {
		file = file[:e]
	}

	if m := strings.Index(file, "mitum/"); m >= 0 {
		file = file[m+6:]
	}

	ps := k.pending[parent]
	for q := range ps {
		if ps[q].site == file || (strings.HasSuffix(ps[q].site, ":*") && strings.HasPrefix(file, ps[q].site[:len(ps[q].site)-1])) {
			id := ps[q].id
			k.pending[parent] = append(ps[:q:q], ps[q+1:]...)

			return id
		}
	}

	return 0
}

// callerSite returns "file:line" of the code that called the lock method when
// site names are needed (a focus filter or tracing is on), else the short kind.
func (k *Kernel) callerSite(kind string) string {
	if k.Focus == nil && !k.Trace {
		return kind
	}

	for skip := 2; skip < 6; skip++ {
		_, file, line, ok := runtime.Caller(skip)
		if !ok {
			break
		}

		if strings.Contains(file, "/simrt/") {
			continue
		}

		if i := strings.Index(file, "mitum/"); i >= 0 {
			file = file[i+6:]
		}

		return kind + "@" + file + ":" + strconv.Itoa(line)
	}

	return kind
}

// Register declares the calling goroutine as a harness task.
func (k *Kernel) Register(name string) *Task {
	g := Goid()

	k.mu.Lock()
	defer k.mu.Unlock()

	t := k.taskForLocked(g)
	t.Name = name
	t.Harness = true

	return t
}

// ForceYield parks even at unfocused sites (used by harness tasks).
func (k *Kernel) ForceYield(site string) { k.yield(site, true) }

// TakeParked returns the parked list (sorted by task id, stable) and clears it.
// Only the scheduler loop calls it, when every other goroutine is blocked.
func (k *Kernel) Parked() []*Parked {
	k.mu.Lock()
	defer k.mu.Unlock()

	ps := k.parked
	// insertion sort by task id: lists are short
	for i := 1; i < len(ps); i++ {
		for j := i; j > 0 && ps[j-1].Task.ID > ps[j].Task.ID; j-- {
			ps[j-1], ps[j] = ps[j], ps[j-1]
		}
	}

	return ps
}

// Release lets one parked task continue.
func (k *Kernel) Release(p *Parked) {
	k.mu.Lock()

	for i := range k.parked {
		if k.parked[i] == p {
			k.parked = append(k.parked[:i:i], k.parked[i+1:]...)

			break
		}
	}

	k.mu.Unlock()
	close(p.ch)
}

// IsRoot reports whether the caller is the kernel's goroutine.
func (k *Kernel) IsRoot() bool { return Goid() == k.RootGoid }

// Dead reports whether the kernel was detached.
func (k *Kernel) Dead() bool {
	k.mu.Lock()
	defer k.mu.Unlock()

	return k.dead
}

// Recover is deferred at the top of every rewritten `go func(){...}()` body.
// With a kernel attached a panic of that goroutine is recorded (the goroutine
// ends, the run goes on and the harness decides what it means); without a
// kernel the panic continues as it would in the shipped code.
func Recover(site string) {
	e := recover()
	if e == nil {
		return
	}

	k := cur.Load()
	if k == nil {
		panic(e)
	}

	buf := make([]byte, 1<<14)
	n := runtime.Stack(buf, false)

	k.mu.Lock()
	k.Panics = append(k.Panics, GoroutinePanic{Site: site, Value: fmt.Sprint(e), Stack: string(buf[:n])})
	k.mu.Unlock()
}

// GoroutinePanic is a panic that ended a goroutine of the system under test.
type GoroutinePanic struct {
	Site  string
	Value string
	Stack string
}

// TakePanics returns and clears the recorded goroutine panics.
func (k *Kernel) TakePanics() []GoroutinePanic {
	k.mu.Lock()
	defer k.mu.Unlock()

	p := k.Panics
	k.Panics = nil

	return p
}

// Rand64 is the tape-independent seeded stream behind the crypto/rand and
// math/rand shims (splitmix64).
func (k *Kernel) Rand64() uint64 {
	k.rngmu.Lock()
	defer k.rngmu.Unlock()

	k.rng += 0x9e3779b97f4a7c15
	z := k.rng
	z = (z ^ (z >> 30)) * 0xbf58476d1ce4e5b9
	z = (z ^ (z >> 27)) * 0x94d049bb133111eb

	return z ^ (z >> 31)
}

var fallbackRng struct {
	sync.Mutex
	s uint64
}

// Rand64 returns the next word of the seeded stream of the current kernel, or
// of a fixed process-wide stream when no kernel is attached.
func Rand64() uint64 {
	if k := cur.Load(); k != nil {
		return k.Rand64()
	}

	fallbackRng.Lock()
	defer fallbackRng.Unlock()

	fallbackRng.s += 0x9e3779b97f4a7c15
	z := fallbackRng.s
	z = (z ^ (z >> 30)) * 0xbf58476d1ce4e5b9
	z = (z ^ (z >> 27)) * 0x94d049bb133111eb

	return z ^ (z >> 31)
}

// MapIter iterates a map in key order with the semantics of a range statement
// (entries deleted meanwhile are not produced, values are current): the
// rewriter replaces listed range statements over maps with it.
type MapIter[K cmp.Ordered, V any] struct {
	m    map[K]V
	keys []K
	i    int
	K    K
	V    V
}

func IterMap[K cmp.Ordered, V any](m map[K]V) *MapIter[K, V] {
	it := &MapIter[K, V]{m: m, keys: make([]K, 0, len(m))}

	for k := range m {
		it.keys = append(it.keys, k)
	}

	slices.Sort(it.keys)

	return it
}

func (it *MapIter[K, V]) Next() bool {
	for it.i < len(it.keys) {
		k := it.keys[it.i]
		it.i++

		if v, ok := it.m[k]; ok {
			it.K, it.V = k, v

			return true
		}
	}

	return false
}

// ---- seeded select ----
//
// Which ready case a select statement takes is decided by the Go runtime with
// its own random source. The rewriter turns every (receive-only) select into
// a switch over Select, which polls the cases in an order rotated by the
// kernel's seeded generator and blocks only when none is ready (then the first
// case to become ready wins, which the schedule decides).

type selCase interface {
	try() bool
	rcase() reflect.SelectCase
	set(reflect.Value, bool)
}

type RecvCase[T any] struct {
	ch <-chan T
	v  T
	ok bool
}

func R[T any](ch <-chan T) *RecvCase[T] { return &RecvCase[T]{ch: ch} }

func (c *RecvCase[T]) try() bool {
	select {
	case v, ok := <-c.ch:
		c.v, c.ok = v, ok

		return true
	default:
		return false
	}
}

func (c *RecvCase[T]) rcase() reflect.SelectCase {
	return reflect.SelectCase{Dir: reflect.SelectRecv, Chan: reflect.ValueOf(c.ch)}
}

func (c *RecvCase[T]) set(v reflect.Value, ok bool) {
	if v.IsValid() && v.CanInterface() {
		c.v, _ = v.Interface().(T)
	}

	c.ok = ok
}

func (c *RecvCase[T]) V() T           { return c.v }
func (c *RecvCase[T]) VOK() (T, bool) { return c.v, c.ok }

// selectStart is the case a select of the calling task tries first: a function of the run seed, the task and the
// number of selects that task has made - not a draw from a stream shared by all goroutines, whose order would depend
// on the order in which the Go runtime runs goroutines that were woken together (a cancelled parent context wakes
// every goroutine selecting on a child context at once).
func (k *Kernel) selectStart(n int) int {
	g := Goid()

	k.mu.Lock()

	if k.dead || k.dying {
		k.mu.Unlock()

		return 0
	}

	t := k.taskForLocked(g)
	t.selN++
	z := k.seed ^ (uint64(t.ID)+1)*0x9e3779b97f4a7c15 ^ t.selN*0xbf58476d1ce4e5b9
	k.mu.Unlock()

	z = (z ^ (z >> 30)) * 0xbf58476d1ce4e5b9
	z = (z ^ (z >> 27)) * 0x94d049bb133111eb
	z ^= z >> 31

	return int(z % uint64(n))
}

// Select returns the index of the chosen case, -1 for default.
func Select(hasDefault bool, cases ...selCase) int {
	n := len(cases)
	start := 0

	if k := cur.Load(); k != nil && n > 1 {
		start = k.selectStart(n)
	}

	for j := 0; j < n; j++ {
		i := (start + j) % n
		if cases[i].try() {
			return i
		}
	}

	if hasDefault {
		return -1
	}

	if n == 0 {
		select {}
	}

	rc := make([]reflect.SelectCase, n)
	for i := range cases {
		rc[i] = cases[i].rcase()
	}

	i, v, ok := reflect.Select(rc)

	// woken by a closed channel (a cancelled context, typically): nothing was consumed, and other cases may have
	// become ready in the same instant (a cancelled parent closes the Done channels of its children in map order);
	// which one is taken is decided again in the seeded order, not by the runtime
	if rc[i].Dir == reflect.SelectRecv && !ok {
		for j := 0; j < n; j++ {
			idx := (start + j) % n
			if cases[idx].try() {
				return idx
			}
		}
	}

	cases[i].set(v, ok)

	return i
}
