// Package srand stands in for crypto/rand in the rewritten copy: same API
// surface as used by mitum, bytes from the kernel's seeded stream.
package srand

import (
	"io"
	"math/big"

	"github.com/spikeekips/mitum/simrt"
)

type reader struct{}

func (reader) Read(b []byte) (int, error) {
	for i := 0; i < len(b); {
		w := simrt.Rand64()
		for j := 0; j < 8 && i < len(b); j++ {
			b[i] = byte(w)
			w >>= 8
			i++
		}
	}

	return len(b), nil
}

// Reader mirrors crypto/rand.Reader.
var Reader io.Reader = reader{}

// Read mirrors crypto/rand.Read.
func Read(b []byte) (int, error) { return Reader.Read(b) }

// Int mirrors crypto/rand.Int.
func Int(r io.Reader, max *big.Int) (*big.Int, error) {
	if max.Sign() <= 0 {
		panic("srand: argument to Int is <= 0")
	}

	n := (max.BitLen() + 7) / 8
	if n == 0 {
		return new(big.Int), nil
	}

	b := make([]byte, n+8)
	if _, err := io.ReadFull(r, b); err != nil {
		return nil, err
	}

	v := new(big.Int).SetBytes(b)

	return v.Mod(v, max), nil
}
