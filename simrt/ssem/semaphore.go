// Copyright 2017 The Go Authors. All rights reserved.
// Use of this source code is governed by a BSD-style
// license that can be found in the LICENSE file.

// Package semaphore provides a weighted semaphore implementation.
// This file is golang.org/x/sync v0.8.0 semaphore/semaphore.go (the version mitum requires) with one change: the
// internal sync.Mutex is the simulator's yielding mutex, so that Acquire and Release are preemption points of the
// seeded scheduler like every other lock in the rewritten copy. Without a kernel attached the mutex is a plain
// sync.Mutex and the package behaves exactly like the original.
package semaphore // import "github.com/spikeekips/mitum/simrt/ssem"

import (
	"container/list"
	"context"

	"github.com/spikeekips/mitum/simrt"
)

type waiter struct {
	n     int64
	ready chan<- struct{} // Closed when semaphore acquired.
}

// NewWeighted creates a new weighted semaphore with the given
// maximum combined weight for concurrent access.
func NewWeighted(n int64) *Weighted {
	w := &Weighted{size: n}
	return w
}

// Weighted provides a way to bound concurrent access to a resource.
// The callers can request access with a given weight.
type Weighted struct {
	size    int64
	cur     int64
	mu      simrt.Mutex
	waiters list.List
}

// Acquire acquires the semaphore with a weight of n, blocking until resources
// are available or ctx is done. On success, returns nil. On failure, returns
// ctx.Err() and leaves the semaphore unchanged.
func (s *Weighted) Acquire(ctx context.Context, n int64) error {
	done := ctx.Done()

	s.mu.Lock()
	select {
	case <-done:
		// ctx becoming done has "happened before" acquiring the semaphore,
		// whether it became done before the call began or while we were
		// waiting for the mutex. We prefer to fail even if we could acquire
		// the mutex without blocking.
		s.mu.Unlock()
		return ctx.Err()
	default:
	}
	if s.size-s.cur >= n && s.waiters.Len() == 0 {
		// Since we hold s.mu and haven't synchronized since checking done, if
		// ctx becomes done before we return here, it becoming done must have
		// "happened concurrently" with this call - it cannot "happen before"
		// we return in this branch. So, we're ok to always acquire here.
		s.cur += n
		s.mu.Unlock()
		return nil
	}

	if n > s.size {
		// Don't make other Acquire calls block on one that's doomed to fail.
		s.mu.Unlock()
		<-done
		return ctx.Err()
	}

	ready := make(chan struct{})
	w := waiter{n: n, ready: ready}
	elem := s.waiters.PushBack(w)
	s.mu.Unlock()

	select {
	case <-done:
		s.mu.Lock()
		select {
		case <-ready:
			// Acquired the semaphore after we were canceled.
			// Pretend we didn't and put the tokens back.
			s.cur -= n
			s.notifyWaiters()
		default:
			isFront := s.waiters.Front() == elem
			s.waiters.Remove(elem)
			// If we're at the front and there're extra tokens left, notify other waiters.
			if isFront && s.size > s.cur {
				s.notifyWaiters()
			}
		}
		s.mu.Unlock()
		return ctx.Err()

	case <-ready:
		// Acquired the semaphore. Check that ctx isn't already done.
		// We check the done channel instead of calling ctx.Err because we
		// already have the channel, and ctx.Err is O(n) with the nesting
		// depth of ctx.
		select {
		case <-done:
			s.Release(n)
			return ctx.Err()
		default:
		}
		return nil
	}
}

// TryAcquire acquires the semaphore with a weight of n without blocking.
// On success, returns true. On failure, returns false and leaves the semaphore unchanged.
func (s *Weighted) TryAcquire(n int64) bool {
	s.mu.Lock()
	success := s.size-s.cur >= n && s.waiters.Len() == 0
	if success {
		s.cur += n
	}
	s.mu.Unlock()
	return success
}

// Release releases the semaphore with a weight of n.
func (s *Weighted) Release(n int64) {
	s.mu.Lock()
	s.cur -= n
	if s.cur < 0 {
		s.mu.Unlock()
		panic("semaphore: released more than held")
	}
	s.notifyWaiters()
	s.mu.Unlock()
}

func (s *Weighted) notifyWaiters() {
	for {
		next := s.waiters.Front()
		if next == nil {
			break // No more waiters blocked.
		}

		w := next.Value.(waiter)
		if s.size-s.cur < w.n {
			// Not enough tokens for the next waiter.  We could keep going (to try to
			// find a waiter with a smaller request), but under load that could cause
			// starvation for large requests; instead, we leave all remaining waiters
			// blocked.
			//
			// Consider a semaphore used as a read-write lock, with N tokens, N
			// readers, and one writer.  Each reader can Acquire(1) to obtain a read
			// lock.  The writer can Acquire(N) to obtain a write lock, excluding all
			// of the readers.  If we allow the readers to jump ahead in the queue,
			// the writer will starve — there is always one token available for every
			// reader.
			break
		}

		s.cur += w.n
		s.waiters.Remove(next)
		close(w.ready)
	}
}
